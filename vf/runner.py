"""Runner: tiers, seeding, sharding, known findings, evidence, exit codes, replay.

Exit codes: 0 held, 1 violation (prints ``VIOLATION property=<id> replay=<path>``),
2 harness error / inconclusive (never reported as a violation).
"""

from __future__ import annotations

import argparse
import importlib
import json
import multiprocessing
import os
import sys
import time
import traceback
from pathlib import Path
from typing import Any

from .core import Stats, Verdict, canonical, digest

ROOT = Path(__file__).resolve().parent.parent

REGISTRY = {
    "C01": "c01_c02_distribution",
    "C02": "c01_c02_distribution",
    "C03": "c03_c04_matryoshka",
    "C04": "c03_c04_matryoshka",
    "C05": "c05_c13_formula",
    "C06": "c06_formula_sync",
    "C07": "c07_resampler_timeline",
    "C08": "c08_resampler_window",
    "C09": "c09_ringbuffer",
    "C10": "c10_actor",
    "C11": "c11_power_manager",
    "C12": "c12_formula_generators",
    "C13": "c05_c13_formula",
    "C14": "c14_power_distributor",
    "C15": "c15_results",
    "C16": "c16_battery_status",
    "C17": "c17_bounds_agreement",
    "C18": "c18_pool_metrics",
    "C19": "c19_fallback",
    "C20": "c20_data_sourcing",
}

WORKERS = 16
LABEL_SAFETY = 0.5


class HarnessError(Exception):
    """Something is wrong with the machinery, not with the code under test."""


def _check_repo_import() -> str:
    import frequenz.sdk  # pylint: disable=import-outside-toplevel

    want = os.environ.get("VERIF_REPO_SRC_EFFECTIVE", "/repo/src")
    got = str(Path(list(frequenz.sdk.__path__)[0]).resolve())
    if not got.startswith(str(Path(want).resolve())):
        raise HarnessError(f"frequenz.sdk imported from {got}, expected under {want}")
    return got


def load_module(pid: str) -> Any:
    if pid not in REGISTRY:
        raise HarnessError(f"unknown property id {pid}")
    return importlib.import_module(f"vf.props.{REGISTRY[pid]}")


def load_findings(pid: str) -> list[dict[str, Any]]:
    path = ROOT / "known_findings.json"
    if not path.exists():
        return []
    data = json.loads(path.read_text())
    return [f for f in data.get("findings", []) if f.get("property") == pid]


def _run_case_guarded(mod: Any, case: Any, pid: str) -> Verdict:
    verdict = mod.run_case(case, pid)
    if not isinstance(verdict, Verdict):
        raise HarnessError("run_case did not return a Verdict")
    return verdict


def explore(
    pid: str, tier: str, seed: int, budget: int, open_classes: list[str], shrink_s: float
) -> dict[str, Any]:
    """One Hypothesis exploration (one process).  Returns a picklable summary."""
    import logging  # pylint: disable=import-outside-toplevel

    import hypothesis  # pylint: disable=import-outside-toplevel
    from hypothesis import HealthCheck, Phase, given, settings  # pylint: disable=import-outside-toplevel

    logging.disable(logging.CRITICAL)
    mod = load_module(pid)
    stats = Stats()
    opened = set(open_classes)
    state: dict[str, Any] = {"fail": None, "error": None}

    class _Violation(Exception):
        pass

    def body(case: Any, collect: bool) -> None:
        state["current"] = case
        verdict = _run_case_guarded(mod, case, pid)
        if collect:
            stats.record(case, verdict, getattr(mod, "describe", None))
        if verdict.violations:
            hit = verdict.classes & opened
            if hit:
                if collect:
                    for cls in sorted(hit):
                        stats.excluded[cls] += 1
                return
            size = len(canonical(case))
            if state["fail"] is None or size < state["fail"]["size"]:
                state["fail"] = {"case": case, "violations": verdict.violations, "size": size}
            raise _Violation(verdict.violations[0])

    common = dict(
        database=None,
        deadline=None,
        derandomize=False,
        report_multiple_bugs=False,
        print_blob=False,
        suppress_health_check=[HealthCheck.too_slow, HealthCheck.data_too_large],
        verbosity=hypothesis.Verbosity.quiet,
    )
    strategy = mod.strategy(tier, pid)

    @hypothesis.seed(seed)
    @settings(max_examples=budget, phases=(Phase.generate,), **common)
    @given(strategy)
    def search(case: Any) -> None:
        body(case, True)

    try:
        search()
    except _Violation:
        pass
    except HarnessError:
        raise
    except BaseException as exc:  # pylint: disable=broad-except
        if state["fail"] is None:
            state["error"] = "".join(traceback.format_exception(exc))
            try:
                _save_replay(pid, f"error-seed{seed}.json", state.get("current"), [state["error"][-2000:]])
            except Exception:  # pylint: disable=broad-except
                pass

    unshrunk = None
    if state["fail"] is not None and shrink_s > 0:
        unshrunk = state["fail"]["case"]
        deadline = time.monotonic() + shrink_s

        @hypothesis.seed(seed)
        @settings(max_examples=budget, phases=(Phase.generate, Phase.shrink), **common)
        @given(strategy)
        def shrink(case: Any) -> None:
            if time.monotonic() > deadline:
                return
            body(case, False)

        try:
            shrink()
        except BaseException:  # pylint: disable=broad-except
            pass

    return {
        "evaluations": stats.evaluations,
        "nontrivial": stats.nontrivial,
        "labels": dict(stats.labels),
        "excluded": dict(stats.excluded),
        "samples": stats.samples,
        "fail": state["fail"],
        "unshrunk": unshrunk,
        "error": state["error"],
        "seed": seed,
    }


def _explore_star(args: tuple[Any, ...]) -> dict[str, Any]:
    try:
        return explore(*args)
    except BaseException as exc:  # pylint: disable=broad-except
        return {"error": "".join(traceback.format_exception(exc)), "evaluations": 0,
                "nontrivial": set(), "labels": {}, "excluded": {}, "samples": [],
                "fail": None, "unshrunk": None, "seed": args[2]}


def _strict(obj: Any) -> Any:
    """JSON-safe copy: non-finite floats become strings (strict parsers reject NaN / Infinity tokens)."""
    if isinstance(obj, float) and (obj != obj or obj in (float("inf"), float("-inf"))):
        return repr(obj)
    if isinstance(obj, dict):
        return {str(k): _strict(x) for k, x in obj.items()}
    if isinstance(obj, (list, tuple, set, frozenset)):
        return [_strict(x) for x in obj]
    return obj


ATHERIS_RUNS = {"C09": 20000, "C01": 20000, "C02": 20000, "C03": 5000, "C04": 5000}
"""libFuzzer runs per process for the coverage-guided stage (tools/atheris_stage.py)."""
ATHERIS_PROCS = 8


def _coverage_guided_stage(pid: str, seed: int, budget_override: int | None) -> dict[str, Any]:
    """Run tools/atheris_stage.py in ATHERIS_PROCS processes; never a harness error if atheris is missing."""
    import subprocess  # pylint: disable=import-outside-toplevel
    import tempfile  # pylint: disable=import-outside-toplevel

    probe = subprocess.run([sys.executable, "-c", "import atheris, importlib.metadata as m; print(m.version('atheris'))"],
                           capture_output=True, text=True, check=False)
    if probe.returncode != 0:
        return {"skipped": "atheris is not importable (setup.sh installs it from the wheelhouse into .deps)", "_violations": []}
    runs = budget_override or ATHERIS_RUNS[pid]
    out: dict[str, Any] = {
        "tool": f"atheris {probe.stdout.strip()} (libFuzzer) driving the Hypothesis strategy through fuzz_one_input",
        "processes": ATHERIS_PROCS, "runs_per_process": runs, "libfuzzer_seeds": [], "cases_at_least": 0,
        "nontrivial_at_least": 0, "labels": {}, "_violations": [],
    }
    procs = []
    with tempfile.TemporaryDirectory(prefix="vf_ath_") as tmp:
        for k in range(ATHERIS_PROCS):
            fseed = seed * 100 + k + 1
            stats_file = os.path.join(tmp, f"stats{k}.json")
            env = dict(os.environ, VERIF_ATHERIS_STATS=stats_file)
            cmd = [sys.executable, str(ROOT / "tools" / "atheris_stage.py"), pid, f"-runs={runs}", f"-seed={fseed}",
                   "-max_len=8192", "-len_control=0", "-timeout=600"]
            procs.append((fseed, stats_file, subprocess.Popen(cmd, env=env, stdout=subprocess.PIPE, stderr=subprocess.STDOUT,
                                                              text=True, cwd=tmp)))
            out["libfuzzer_seeds"].append(fseed)
        for fseed, stats_file, proc in procs:
            try:
                text, _ = proc.communicate(timeout=5400)
            except subprocess.TimeoutExpired:
                proc.kill()
                raise HarnessError(f"coverage-guided stage (seed {fseed}) exceeded its wall-clock guard (inconclusive)") from None
            st: dict[str, Any] = {}
            if os.path.exists(stats_file):
                st = json.loads(Path(stats_file).read_text())
            out["cases_at_least"] += st.get("cases", 0)
            out["nontrivial_at_least"] += st.get("nontrivial", 0)
            out["instrumented"] = st.get("instrumented", [])
            for lab, n in st.get("labels", {}).items():
                out["labels"][lab] = out["labels"].get(lab, 0) + n
            if proc.returncode == 1 and "violation" in st:
                out["_violations"].append(st["violation"])
            elif proc.returncode != 0:
                print(text[-3000:], file=sys.stderr)
                raise HarnessError(f"coverage-guided stage (seed {fseed}) ended with exit status {proc.returncode}")
    out["violations"] = len(out["_violations"])
    return out


def write_evidence(pid: str, mod: Any, tier: str, seed: int, stats: Stats, wall: float,
                   violations: int, extra: dict[str, Any]) -> None:
    total = max(1, stats.evaluations)
    cov = {
        "evaluations": stats.evaluations,
        "distinct_nontrivial": len(stats.nontrivial),
        "rule": mod.RULE[pid],
        "samples": stats.samples,
        "labels": {k: v for k, v in sorted(stats.labels.items())},
        "label_fractions": {k: round(v / total, 4) for k, v in sorted(stats.labels.items())},
        "excluded_by_known_finding": dict(stats.excluded),
        "replayed_corpus_cases": stats.replayed,
        "size_bounds": getattr(mod, "SIZE_BOUNDS", {}).get(tier, ""),
        "exhaustive": False,
    }
    cov.update(extra)
    evidence = {
        "property_id": pid,
        "tier": tier,
        "seed": seed,
        "level": "exploration",
        "coverage": cov,
        "assumptions": list(getattr(mod, "ASSUMPTIONS", [])) + [
            "CPython 3.12, Hypothesis, async_solipsism virtual loop and time_machine behave as documented",
            "frequenz-channels and frequenz-client-microgrid are taken as given",
            "generated-input search never establishes absence; see evaluations / size_bounds",
        ],
        "wall_s": round(wall, 2),
        "violations": violations,
    }
    if os.environ.get("VERIF_NO_EVIDENCE"):
        return
    out = ROOT / "evidence"
    out.mkdir(exist_ok=True)
    (out / f"{pid}.json").write_text(
        json.dumps(_strict(evidence), indent=1, sort_keys=True, default=str, allow_nan=False) + "\n")


def _save_replay(pid: str, name: str, case: Any, violations: list[str]) -> Path:
    out = Path(os.environ.get("VERIF_REPLAY_DIR", str(ROOT / "replays"))) / pid
    out.mkdir(parents=True, exist_ok=True)
    path = out / name
    path.write_text(json.dumps({"property": pid, "case": case, "violations": violations},
                               indent=1, sort_keys=True) + "\n")
    return path


def _load_case(path: Path) -> Any:
    data = json.loads(path.read_text())
    if isinstance(data, dict) and "case" in data and "property" in data:
        return data["case"]
    return data


def cmd_replay(pid: str, path: Path) -> int:
    mod = load_module(pid)
    case = _load_case(path)
    verdict = _run_case_guarded(mod, case, pid)
    print(json.dumps({"labels": sorted(verdict.labels), "nontrivial": verdict.nontrivial,
                      "classes": sorted(verdict.classes)}))
    if hasattr(mod, "describe"):
        print("case:", json.dumps(mod.describe(case), default=str)[:4000])
    if verdict.violations:
        for v in verdict.violations:
            print("  violated:", v)
        print(f"VIOLATION property={pid} replay={path}")
        return 1
    print(f"OK property={pid} replay={path}")
    return 0


def cmd_check(pid: str, tier: str, seed: int, budget_override: int | None) -> int:
    t0 = time.monotonic()
    mod = load_module(pid)
    findings = load_findings(pid)
    open_findings = [f for f in findings if f.get("status") == "open"]
    open_classes = sorted({f["class"] for f in open_findings})
    stats = Stats()
    violations: list[tuple[Path, list[str]]] = []
    known_seen: list[str] = []

    # 1. replay tier: corpus (must pass) and open findings (reported as KNOWN-FINDING)
    corpus_dir = ROOT / "corpus" / pid
    for path in sorted(corpus_dir.glob("*.json")) if corpus_dir.exists() else []:
        case = _load_case(path)
        verdict = _run_case_guarded(mod, case, pid)
        stats.record(case, verdict, getattr(mod, "describe", None))
        stats.replayed += 1
        if verdict.violations and not (verdict.classes & set(open_classes)):
            violations.append((path, verdict.violations))
    for f in open_findings:
        path = ROOT / f["replay"]
        case = _load_case(path)
        verdict = _run_case_guarded(mod, case, pid)
        stats.replayed += 1
        if verdict.violations:
            if f["class"] not in verdict.classes:
                raise HarnessError(f"finding {f['id']}: replay is not in its own class {f['class']}")
            known_seen.append(f["id"])
            print(f"KNOWN-FINDING: property={pid} {f['id']}: {f['title']} (replay {f['replay']})")
        else:
            print(f"note: known finding {f['id']} no longer reproduces on this tree")

    # 2. generated exploration
    budget = mod.BUDGET[tier]
    if isinstance(budget, dict):
        budget = budget[pid]
    budget = budget_override or budget
    if tier == "quick":
        jobs = [(pid, tier, seed, budget, open_classes, 90.0)]
    else:
        jobs = [(pid, tier, seed * 1000 + k, budget, open_classes, 240.0) for k in range(WORKERS)]
    guard = float(os.environ.get("VERIF_GUARD_S", "1700" if tier == "quick" else "6000"))
    results: list[dict[str, Any]] = []
    if not violations:
        ctx = multiprocessing.get_context("fork")
        with ctx.Pool(min(WORKERS, len(jobs))) as pool:
            asyncs = [pool.apply_async(_explore_star, (job,)) for job in jobs]
            for a in asyncs:
                remaining = guard - (time.monotonic() - t0)
                try:
                    results.append(a.get(timeout=max(1.0, remaining)))
                except multiprocessing.TimeoutError:
                    pool.terminate()
                    raise HarnessError(f"worker exceeded the wall-clock guard of {guard}s (inconclusive)")

    errors = [r["error"] for r in results if r.get("error")]
    for r in results:
        part = Stats()
        part.evaluations = r["evaluations"]
        part.nontrivial = r["nontrivial"]
        part.labels.update(r["labels"])
        part.excluded.update(r["excluded"])
        part.samples = r["samples"]
        stats.merge(part)
        if r["fail"] is not None:
            if r["unshrunk"] is not None and digest(r["unshrunk"]) != digest(r["fail"]["case"]):
                _save_replay(pid, f"{tier}-seed{r['seed']}-unshrunk.json", r["unshrunk"], [])
            path = _save_replay(pid, f"{tier}-seed{r['seed']}.json", r["fail"]["case"], r["fail"]["violations"])
            violations.append((path, r["fail"]["violations"]))

    # 3. coverage-guided stage (thorough tier; properties whose cases run without the event loop)
    guided: dict[str, Any] | None = None
    if tier == "thorough" and pid in ATHERIS_RUNS and not violations and not any(r.get("error") for r in results):
        guided = _coverage_guided_stage(pid, seed, budget_override)
        for item in guided.pop("_violations"):
            violations.append((Path(item["replay"]), item["violations"]))

    wall = time.monotonic() - t0
    extra = {
        "known_findings_open": [f["id"] for f in open_findings],
        "known_findings_reproduced": known_seen,
        "workers": len(jobs),
        "worker_seeds": [j[2] for j in jobs],
        "budget_per_worker": budget,
    }
    if guided is not None:
        extra["coverage_guided"] = guided
    if errors:
        print(errors[0], file=sys.stderr)
        raise HarnessError("exploration raised an unexpected exception (see traceback above)")

    # generator health: required label fractions
    low = []
    if not violations:
        for label, frac in getattr(mod, "MIN_LABELS", {}).get(pid, {}).items():
            got = stats.labels.get(label, 0) / max(1, stats.evaluations)
            # the declared fraction is the design target; the run is rejected as a broken generator
            # (exit 2, never a violation) only below half of it, and only on full-size runs
            if got < frac * LABEL_SAFETY and stats.evaluations >= 500:
                low.append(f"{label}: {got:.3f} < {LABEL_SAFETY} * {frac}")
    write_evidence(pid, mod, tier, seed, stats, wall, len(violations), extra)
    if low:
        raise HarnessError("generator does not reach required classes: " + "; ".join(low))

    print(f"{pid} tier={tier} seed={seed} evaluations={stats.evaluations} "
          f"distinct_nontrivial={len(stats.nontrivial)} excluded={sum(stats.excluded.values())} "
          f"wall={wall:.1f}s")
    if violations:
        for path, msgs in violations:
            for m in msgs[:5]:
                print("  violated:", m)
            print(f"VIOLATION property={pid} replay={path}")
        return 1
    return 0


def main() -> int:
    ap = argparse.ArgumentParser()
    ap.add_argument("pid")
    ap.add_argument("--tier", default=os.environ.get("VERIF_TIER", "quick"), choices=["quick", "thorough"])
    ap.add_argument("--replay", default=None)
    ap.add_argument("--budget", type=int, default=None, help="override case count (per worker)")
    args = ap.parse_args()
    try:
        seed = int(os.environ.get("VERIF_SEED", "1") or "1")
    except ValueError:
        seed = 1
    try:
        import logging  # pylint: disable=import-outside-toplevel

        logging.disable(logging.CRITICAL)
        _check_repo_import()
        if args.replay:
            return cmd_replay(args.pid, Path(args.replay))
        return cmd_check(args.pid, args.tier, seed, args.budget)
    except HarnessError as exc:
        print(f"HARNESS-ERROR: {exc}", file=sys.stderr)
        return 2
    except BaseException:  # pylint: disable=broad-except
        traceback.print_exc()
        print("HARNESS-ERROR: unexpected exception", file=sys.stderr)
        return 2


if __name__ == "__main__":
    sys.exit(main())
