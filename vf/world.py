"""Virtual-time world: an async_solipsism loop with the wall clock slaved to it.

Inside ``run(coro_fn)`` ``datetime.now(tz) == T0 + loop.time()`` at every
instant and in every task; ``settle()`` is a quiescence barrier (the virtual
clock only advances when no callback is ready).
"""

from __future__ import annotations

import asyncio
import signal
from datetime import datetime, timedelta, timezone
from typing import Any, Awaitable, Callable

import async_solipsism
import time_machine

T0 = datetime(2024, 1, 1, tzinfo=timezone.utc)

SETTLE = 1e-6


def now() -> datetime:
    return datetime.now(timezone.utc)


def vtime() -> float:
    """Virtual seconds since the start of the case."""
    return asyncio.get_running_loop().time()


async def settle(n: int = 1) -> None:
    """Return only when every other task is blocked (n micro-seconds later)."""
    for _ in range(n):
        await asyncio.sleep(SETTLE)


async def advance(seconds: float) -> None:
    await asyncio.sleep(seconds)


class Livelock(KeyboardInterrupt):
    """The case did not finish within the wall-clock limit although time is virtual.

    On a virtual clock a case takes milliseconds; hitting the limit means some task spins
    without ever yielding to the loop.  Derived from KeyboardInterrupt so that asyncio lets
    it propagate out of the running task and out of ``run_until_complete``.
    """


def _on_alarm(signum: int, frame: Any) -> None:
    del signum, frame
    raise Livelock("wall-clock limit hit inside a virtual-time case")


def run(coro_fn: Callable[[], Awaitable[Any]], t0: datetime = T0, wall_limit: float = 120.0) -> Any:
    old_handler = signal.signal(signal.SIGALRM, _on_alarm)
    signal.setitimer(signal.ITIMER_REAL, wall_limit)
    try:
        return _run(coro_fn, t0)
    finally:
        signal.setitimer(signal.ITIMER_REAL, 0.0)
        signal.signal(signal.SIGALRM, old_handler)


def _run(coro_fn: Callable[[], Awaitable[Any]], t0: datetime) -> Any:
    loop = async_solipsism.EventLoop()
    asyncio.set_event_loop(loop)
    # exceptions in orphaned tasks are judged by the oracles, not by log output
    loop.set_exception_handler(lambda _loop, _ctx: None)
    with time_machine.travel(t0, tick=False) as traveller:
        clock = loop._selector.clock  # pylint: disable=protected-access
        orig = clock.advance

        def _advance(delta: float) -> None:
            orig(delta)
            traveller.move_to(t0 + timedelta(microseconds=round(clock.time() * 1e6)))

        clock.advance = _advance
        try:
            return loop.run_until_complete(coro_fn())
        finally:
            for _ in range(5):
                tasks = [t for t in asyncio.all_tasks(loop) if not t.done()]
                if not tasks:
                    break
                for t in tasks:
                    t.cancel()
                try:
                    loop.run_until_complete(asyncio.gather(*tasks, return_exceptions=True))
                except BaseException:  # pylint: disable=broad-except
                    pass
            try:
                loop.run_until_complete(loop.shutdown_asyncgens())
            except BaseException:  # pylint: disable=broad-except
                pass
            loop.close()
            asyncio.set_event_loop(None)
