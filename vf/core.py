"""Shared data types: Verdict of one case, Stats of one run."""

from __future__ import annotations

import hashlib
import json
from collections import Counter
from dataclasses import dataclass, field
from typing import Any


@dataclass
class Verdict:
    """Outcome of running one generated case against one property."""

    violations: list[str] = field(default_factory=list)
    """Human readable oracle failures (empty = the property held on this case)."""

    labels: set[str] = field(default_factory=set)
    """Classification of the case (measured distribution is reported in evidence)."""

    nontrivial: bool = False
    """Whether the case is non-trivial by the property's stated rule."""

    classes: set[str] = field(default_factory=set)
    """Known-finding input classes the case belongs to (decided from the input only)."""

    def fail(self, msg: str) -> None:
        if len(self.violations) < 20:
            self.violations.append(msg)


def canonical(case: Any) -> str:
    return json.dumps(case, sort_keys=True, separators=(",", ":"), allow_nan=True)


def digest(case: Any) -> str:
    return hashlib.sha1(canonical(case).encode()).hexdigest()[:16]


class Stats:
    """Counters of one exploration run (mergeable across workers)."""

    MAX_SAMPLES = 6

    def __init__(self) -> None:
        self.evaluations = 0
        self.nontrivial: set[str] = set()
        self.labels: Counter[str] = Counter()
        self.excluded: Counter[str] = Counter()
        self.samples: list[Any] = []
        self.replayed = 0

    def record(self, case: Any, verdict: Verdict, describe: Any = None) -> None:
        self.evaluations += 1
        for lab in verdict.labels:
            self.labels[lab] += 1
        if verdict.nontrivial:
            d = digest(case)
            if d not in self.nontrivial:
                self.nontrivial.add(d)
                if len(self.samples) < self.MAX_SAMPLES:
                    self.samples.append(describe(case) if describe else case)

    def merge(self, other: "Stats") -> None:
        self.evaluations += other.evaluations
        self.nontrivial |= other.nontrivial
        self.labels.update(other.labels)
        self.excluded.update(other.excluded)
        self.replayed += other.replayed
        for s in other.samples:
            if len(self.samples) < self.MAX_SAMPLES:
                self.samples.append(s)
