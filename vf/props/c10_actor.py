"""C10 — actors restart after failures, only after failures, and stop cleanly.

A probe actor follows a generated outcome script (fault placed at every await point of a
small body, behaviour under cancellation included); a generated control schedule calls
start/stop/cancel/wait, adds extra tasks and advances the virtual clock.  The recorded
trace is judged by a reference lifecycle model and invariants.
"""

from __future__ import annotations

import asyncio
from datetime import timedelta
from typing import Any

from hypothesis import strategies as st

from frequenz.sdk.actor import Actor, BackgroundService, run

from .. import world
from ..core import Verdict

IDS = ("C10",)
BUDGET = {"quick": 4000, "thorough": 15000}
SIZE_BOUNDS = {
    "quick": "<= 6 scripted runs of 0-3 awaits, <= 15 control operations, restart limit 0/1/3/None, restart delay 0/2 s",
    "thorough": "<= 8 scripted runs, <= 40 control operations",
}
RULE = {
    "C10": (
        "Hypothesis-generated cases of three kinds. actor: per successive run (awaits before the outcome 0-3, outcome return / "
        "raise Exception / raise BaseException / block until cancelled, reaction to cancellation propagate / raise Exception / "
        "await once more then raise / await once more then propagate / swallow and return), restart limit 0/1/3/None, RESTART_DELAY 0/2 s, and a control "
        "schedule of start, stop (as a task), cancel, wait (as a task), extra task (finishes / fails / blocks) and clock "
        "advances of 0.5-5 s landing before, inside and after the restart delay. service: a BackgroundService with several "
        "tasks and the same stop/cancel/wait operations. group: run(a, b, ...) over 1-3 terminating actors. resampling_actor: "
        "a real ComponentMetricsResamplingActor with 1-3 series, one of whose sources may be closed while it runs, stopped by "
        "stop() or cancel()+wait(): afterwards is_running is False, its tasks are done and no sample is emitted any more. Oracle: at most one "
        "_run active; a run that returned, was cancelled or raised BaseException is the last until the next start(); after "
        "stop()/cancel() no new _run begins until the next start(); a run that raised Exception with restarts left and no "
        "stop pending is followed by the next run exactly RESTART_DELAY later and by none when the limit is exhausted, in "
        "which case wait()/stop() surface the exception; when stop() returns all tasks present at the call are done, it never "
        "raises CancelledError members, it returns once every task has ended (checked at a far virtual horizon); run() "
        "returns exactly when all actors have finished. Non-trivial = a stop/cancel inside a run or inside the restart delay, "
        "or >= 2 failures, or a failure during cancellation; distinct by SHA-1 of the canonical JSON case."
    )
}
ASSUMPTIONS = [
    "start() issued while a cancellation is still in progress is left open by the statement: for the rest of such a case only "
    "'the run logic never runs twice concurrently' is judged",
    "tasks spawned during stop() are not asserted",
    "virtual time (async_solipsism): delays elapse exactly",
]
MIN_LABELS = {"C10": {"stop_or_cancel_inside_run": 0.15, "stop_or_cancel_inside_restart_delay": 0.01, "two_failures": 0.04,
                      "failure_during_cancellation": 0.03, "limit_exhausted": 0.015,
                      "task_failed_while_wait_or_stop_pending": 0.01}}


class _Base(BaseException):
    """A BaseException subclass that is not an Exception."""


def strategy(tier: str, pid: str = "C10") -> st.SearchStrategy[Any]:
    del pid
    nruns, nops = (6, 15) if tier == "quick" else (8, 40)
    run_spec = st.tuples(
        st.integers(0, 3),
        st.sampled_from(["return", "return", "raise", "raise", "raise", "raise", "base", "block", "block", "block"]),
        st.sampled_from(["propagate", "propagate", "raise", "raise", "raise_later", "swallow", "propagate_later"]),
    ).map(list)
    adv = st.tuples(st.just("adv"), st.sampled_from([0.5, 1.0, 1.0, 1.5, 2.0, 2.5, 5.0])).map(list)
    op = st.one_of(
        adv, adv, adv, adv,
        st.sampled_from([["start"], ["start"], ["stop"], ["stop"], ["cancel"], ["wait"]]),
        st.sampled_from([["start"], ["stop"], ["cancel"], ["wait"]]),
        st.tuples(st.just("extra"), st.sampled_from(["finish", "fail", "fail", "block"])).map(list),
        # two lifecycle calls back to back (no clock advance between them; flattened below)
        st.sampled_from([[["cancel"], ["start"]], [["stop"], ["start"]], [["cancel"], ["start"]], [["start"], ["cancel"]],
                         [["cancel"], ["wait"]]]),
    )

    def flatten(ops: list[Any]) -> list[Any]:
        out: list[Any] = []
        for o in ops:
            out += o if o and isinstance(o[0], list) else [o]
        return out

    failing = st.tuples(st.integers(0, 2), st.sampled_from(["raise"] * 6 + ["return", "block", "base"]),
                        st.sampled_from(["propagate", "propagate", "raise"])).map(list)
    actor = st.fixed_dictionaries({
        "kind": st.just("actor"),
        # a third of the scripts fail almost every run, so that restart limits are exhausted
        "script": st.one_of(st.lists(run_spec, min_size=1, max_size=nruns), st.lists(run_spec, min_size=1, max_size=nruns),
                            st.lists(failing, min_size=3, max_size=nruns + 2)),
        "limit": st.sampled_from([0, 1, 3, 3, None, None]),
        "delay": st.sampled_from([0.0, 2.0, 2.0]),
        "ops": st.lists(op, min_size=3, max_size=nops).map(lambda ops: [["start"]] + flatten(ops)),
    })
    svc_op = st.sampled_from([["wait"], ["wait"], ["stop"], ["cancel"], ["extra", "fail"], ["extra", "fail"],
                              ["extra", "finish"], ["extra", "block"], ["adv", 0.5], ["adv", 1.0], ["adv", 2.0], ["adv", 5.0]])
    service = st.fixed_dictionaries({
        "kind": st.just("service"),
        "tasks": st.lists(st.tuples(st.sampled_from(["finish", "finish", "finish", "fail", "block"]),
                                    st.integers(0, 5)).map(list), min_size=1, max_size=4),
        "ops": st.lists(svc_op, min_size=1, max_size=8),
    })
    group = st.fixed_dictionaries({
        "kind": st.just("group"),
        "actors": st.lists(
            st.lists(st.tuples(st.integers(0, 3), st.sampled_from(["return", "raise", "base"])).map(list),
                     min_size=1, max_size=3),
            min_size=1, max_size=3),
        "limit": st.sampled_from([0, 1, 3]),
        "delay": st.sampled_from([0.0, 2.0]),
    })
    # a real actor of the SDK that spawns tasks of its own: the resampling actor, with a source that may fail
    real = st.fixed_dictionaries({
        "kind": st.just("resampling_actor"),
        "nseries": st.integers(1, 3),
        "close_at": st.one_of(st.none(), st.integers(1, 4)),
        "close_which": st.integers(0, 2),
        "run_for": st.integers(1, 5),
        "how": st.sampled_from(["stop", "stop", "cancel_wait"]),
    })
    return st.one_of(actor, actor, actor, actor, actor, actor, actor, actor, service, service, group, group, real)


# --------------------------------------------------------------------------- probe actor


def _make_actor(script: list[list[Any]], limit: int | None, delay: float, trace: list[Any], terminate: bool = False) -> Any:
    class Probe(Actor):
        RESTART_DELAY = timedelta(seconds=delay)
        _restart_limit = limit

        def __init__(self) -> None:
            super().__init__(name="probe")
            self.n_runs = 0
            self.active = 0

        async def _run(self) -> None:
            loop = asyncio.get_running_loop()
            idx = self.n_runs
            self.n_runs += 1
            if idx < len(script):
                n_awaits, outcome, on_cancel = (script[idx] + ["propagate"])[:3]
            else:
                n_awaits, outcome, on_cancel = (0, "return" if terminate else "block", "propagate")
            self.active += 1
            trace.append((loop.time(), "begin", idx, self.active))
            how = "return"
            try:
                try:
                    for _ in range(n_awaits):
                        await asyncio.sleep(1.0)
                    if outcome == "block":
                        await asyncio.Event().wait()
                except asyncio.CancelledError:
                    if on_cancel == "raise":
                        raise RuntimeError(f"run {idx}: cleanup failed")  # pylint: disable=raise-missing-from
                    if on_cancel == "raise_later":
                        await asyncio.sleep(1.0)
                        raise RuntimeError(f"run {idx}: late cleanup failed")  # pylint: disable=raise-missing-from
                    if on_cancel == "swallow":
                        return
                    if on_cancel == "propagate_later":
                        await asyncio.sleep(1.0)   # a flush in the cancellation path, then the cancellation goes on
                    raise
                if outcome == "raise":
                    raise ValueError(f"run {idx} failed")
                if outcome == "base":
                    raise _Base(f"run {idx} base failure")
            except asyncio.CancelledError:
                how = "cancelled"
                raise
            except Exception as exc:
                how = "exception"
                trace.append((loop.time(), "exc", idx, exc))
                raise
            except BaseException as exc:
                how = "base"
                trace.append((loop.time(), "exc", idx, exc))
                raise
            finally:
                self.active -= 1
                trace.append((loop.time(), "end", idx, how))

    return Probe()


async def _extra(kind: str) -> None:
    if kind == "block":
        await asyncio.Event().wait()
    await asyncio.sleep(1.0)
    if kind == "fail":
        raise KeyError("extra task failed")


def _group_members(exc: BaseException | None) -> list[BaseException]:
    if exc is None:
        return []
    if isinstance(exc, BaseExceptionGroup):
        out: list[BaseException] = []
        for e in exc.exceptions:
            out += _group_members(e)
        return out
    return [exc]


# --------------------------------------------------------------------------- actor kind


def _run_actor(case: dict[str, Any], v: Verdict) -> None:
    trace: list[Any] = []
    ctl: list[Any] = []  # (time, op, payload)
    calls: list[dict[str, Any]] = []  # stop / wait tasks
    extra_recs: list[dict[str, Any]] = []

    async def scenario() -> None:
        loop = asyncio.get_running_loop()
        actor = _make_actor(case["script"], case["limit"], case["delay"], trace)
        extras: list[asyncio.Task[None]] = []
        for op in case["ops"]:
            now = loop.time()
            if op[0] == "start":
                ctl.append((now, "start", actor.is_running))
                actor.start()
            elif op[0] == "cancel":
                ctl.append((now, "cancel", actor.is_running))
                actor.cancel()
            elif op[0] in ("stop", "wait"):
                ctl.append((now, op[0], actor.is_running))
                snapshot = set(actor.tasks)
                task = asyncio.create_task(actor.stop() if op[0] == "stop" else actor.wait())
                call = {"op": op[0], "t": now, "task": task, "snapshot": snapshot, "t_done": None,
                        # tasks of the service that had already failed when the call was made
                        "failed_at_call": [t for t in snapshot if t.done() and not t.cancelled() and t.exception() is not None]}
                task.add_done_callback(lambda _t, c=call: c.__setitem__("t_done", loop.time()))
                calls.append(call)
            elif op[0] == "extra":
                if actor.tasks:  # only meaningful while the service holds tasks
                    t = asyncio.create_task(_extra(op[1]))
                    extras.append(t)
                    rec = {"task": t, "t_add": now, "t_done": None}
                    t.add_done_callback(lambda _t, r=rec: r.__setitem__("t_done", loop.time()))
                    extra_recs.append(rec)
                    actor._tasks.add(t)  # pylint: disable=protected-access
                    ctl.append((now, "extra", op[1]))
            elif op[0] == "adv":
                await asyncio.sleep(op[1])
            await world.settle()
        # bounded liveness: give everything ample virtual time, then make sure nothing of ours lingers
        await asyncio.sleep(60.0)
        ctl.append((loop.time(), "horizon", None))
        for c in calls:
            c["done"] = c["task"].done()
            c["exc"] = None
            if c["done"] and not c["task"].cancelled():
                c["exc"] = c["task"].exception()
            c["snapshot_done"] = all(t.done() for t in c["snapshot"])
        actor.cancel()
        for c in calls:
            c["task"].cancel()
        for t in extras:
            t.cancel()
        await world.settle(3)

    world.run(scenario)
    _judge_actor(case, v, trace, ctl, calls)
    _judge_dropped_errors(v, calls, extra_recs)


def _judge_actor(case: dict[str, Any], v: Verdict, trace: list[Any], ctl: list[Any], calls: list[dict[str, Any]]) -> None:
    limit, delay = case["limit"], case["delay"]
    events = sorted(
        [(t, 0, "ctl", kind, payload) for t, kind, payload in ctl]
        + [(e[0], 1, "run", e[1], e[2:]) for e in trace if e[1] in ("begin", "end")],
        key=lambda x: (x[0], x[1]),
    )
    # the control op of an instant is applied before the tasks run (ops are followed by a settle)
    running = False          # model: loop task alive
    run_active = False
    stop_pending = False
    cancel_in_progress = False
    expect_begin: float | None = None
    restarts = 0
    failures = 0
    ambiguous = False
    epoch_errors: list[tuple[float, BaseException]] = []
    excs = {e[2]: e[3] for e in trace if e[1] == "exc"}
    for t, _, src, kind, payload in events:
        if ambiguous:
            # whether such a start() takes effect is left open; that the run logic never runs twice at once is not
            for e in trace:
                if e[1] == "begin" and e[0] >= t - 1e-9 and e[3] != 1:
                    v.fail(f"t={e[0]}: _run #{e[2]} began while another _run was still active (after a start() issued "
                           f"while a cancellation was in progress)")
            break
        if expect_begin is not None and t > expect_begin + 1e-7:
            v.fail(f"no _run began at t={expect_begin} (restart after a failure with restarts left / start())")
            return
        if src == "ctl":
            if kind == "start":
                if running and not payload:
                    v.fail(f"t={t}: is_running is False while the run loop is alive (run active or restart pending)")
                    return
                if not running and payload:
                    # another task of the service (an extra task) is still alive: the service counts as
                    # running and start() documents that it does nothing
                    v.labels.add("start_ignored_extra_task_alive")
                elif not running:
                    running, stop_pending, restarts = True, False, 0
                    expect_begin = t
                elif stop_pending or cancel_in_progress:
                    ambiguous = True
                    v.labels.add("start_during_cancellation_not_judged")
            elif kind in ("stop", "cancel"):
                if running:
                    stop_pending = True
                    if run_active:
                        v.labels.add("stop_or_cancel_inside_run")
                        cancel_in_progress = True
                    elif expect_begin is not None and expect_begin > t:
                        v.labels.add("stop_or_cancel_inside_restart_delay")
                    if not run_active:
                        # cancelled while waiting for the restart (or before the first run): loop ends
                        expect_begin = None
                        running = False
            continue
        if kind == "begin":
            idx, active = payload
            if active != 1:
                v.fail(f"t={t}: _run #{idx} began while another _run was still active")
                return
            if expect_begin is None or abs(t - expect_begin) > 1e-7:
                why = "after stop()/cancel()" if stop_pending else "without a preceding failure or start()"
                v.fail(f"t={t}: _run #{idx} began {why} (expected begin: {expect_begin})")
                return
            expect_begin = None
            run_active = True
        elif kind == "end":
            idx, how = payload
            run_active = False
            cancel_in_progress = False
            if how == "exception":
                failures += 1
                if stop_pending:
                    v.labels.add("failure_during_cancellation")
                    running = False
                    epoch_errors.append((t, excs[idx]))
                elif limit is None or restarts < limit:
                    restarts += 1
                    expect_begin = t + delay
                else:
                    v.labels.add("limit_exhausted")
                    running = False
                    epoch_errors.append((t, excs[idx]))
            else:
                if how == "base":
                    epoch_errors.append((t, excs[idx]))
                running = False
    if failures >= 2:
        v.labels.add("two_failures")
    v.nontrivial = bool(v.labels & {"stop_or_cancel_inside_run", "stop_or_cancel_inside_restart_delay", "two_failures",
                                    "failure_during_cancellation"})
    if ambiguous or v.violations:
        return

    # stop()/wait() results
    had_wait = any(c["op"] == "wait" for c in calls)
    for c in calls:
        name = f"{c['op']}() called at t={c['t']}"
        if c["op"] == "stop":
            if not c["done"]:
                v.fail(f"{name} had not returned 60 s after the last operation although every task was cancelled")
                continue
            if not c["snapshot_done"]:
                v.fail(f"{name} returned while a task that existed when it was called is still running")
            members = _group_members(c["exc"])
            if any(isinstance(m, asyncio.CancelledError) for m in members):
                v.fail(f"{name} raised a group containing CancelledError")
            if c["exc"] is not None and not isinstance(c["exc"], BaseExceptionGroup):
                v.fail(f"{name} raised {type(c['exc']).__name__} instead of an exception group")
            # also with other waiters around: a task that had already failed when stop() was called is in the set
            # stop() waits on, so stop() itself must surface its error
            for task in c.get("failed_at_call", []):
                if not any(m is task.exception() for m in members):
                    v.fail(f"{name} did not surface {task.exception()!r} of a task that had already failed when it was "
                           f"called (it surfaced {[repr(m) for m in members]})")
            if not had_wait:
                want = []
                for task in c["snapshot"]:
                    if task.done() and not task.cancelled() and task.exception() is not None:
                        want.append(task.exception())
                if {id(m) for m in members} != {id(w) for w in want}:
                    v.fail(f"{name} surfaced {[repr(m) for m in members]}, the tasks it stopped ended with "
                           f"{[repr(w) for w in want]}")
    # an epoch that ended with an error must be surfaced by a wait()/stop() that was pending at that
    # moment, or else by the next one issued before any start() (if there is one at all)
    for t_err, err in epoch_errors:
        pending = [c for c in calls if c["t"] < t_err and (c["t_done"] is None or c["t_done"] >= t_err)]
        later = sorted([c for c in calls if c["t"] >= t_err], key=lambda c: c["t"])
        starts = [t for t, k, _ in ctl if k == "start" and t >= t_err]
        candidates = list(pending)
        if not candidates and later and (not starts or later[0]["t"] < starts[0]):
            candidates = [later[0]]
        candidates = [c for c in candidates if c["done"]]
        if candidates and not any(any(m is err for m in _group_members(c["exc"])) for c in candidates):
            v.fail(f"_run ended with {err!r} at t={t_err} but none of "
                   f"{[(c['op'], c['t']) for c in candidates]} surfaced it")


def _judge_dropped_errors(v: Verdict, calls: list[dict[str, Any]], extra_recs: list[dict[str, Any]]) -> None:
    """A task added at any time that fails while a wait()/stop() is in progress must be surfaced.

    Sound form: if some wait()/stop() call was pending when the task failed and later returned normally,
    then at least one wait()/stop() call must have raised a group containing the task's error (with
    concurrent waiters either of them may be the one; a call that raised for other reasons leaves the
    error for the next call and proves nothing).
    """
    if v.violations:
        return
    for rec in extra_recs:
        task = rec["task"]
        if rec["t_done"] is None or task.cancelled() or task.exception() is None:
            continue
        err = task.exception()
        # only calls that returned *normally* are conclusive: a call that raised because of other tasks'
        # errors legitimately leaves this task's error for the next wait()/stop()
        # a stop() gives up waiting as soon as the tasks it cancelled have ended (their CancelledErrors end its
        # wait() loop), so a task added *after* that stop() was called is "spawned during stop()": not asserted
        pending = [c for c in calls if c["t"] <= rec["t_done"] and c["done"] and c["exc"] is None
                   and not c["task"].cancelled() and c["t_done"] is not None and c["t_done"] >= rec["t_done"]
                   and not (c["op"] == "stop" and rec["t_add"] >= c["t"])]
        if any(c["t"] <= rec["t_done"] and (c["t_done"] is None or c["t_done"] >= rec["t_done"]) for c in calls):
            v.labels.add("task_failed_while_wait_or_stop_pending")
        if not pending:
            continue
        if not any(any(m is err for m in _group_members(c["exc"])) for c in calls if c["done"]):
            v.fail(f"a task added at t={rec['t_add']} failed with {err!r} at t={rec['t_done']} while "
                   f"{[(c['op'], c['t']) for c in pending]} was in progress, but no wait()/stop() call surfaced the error")
            return


# --------------------------------------------------------------------------- service kind


def _run_service(case: dict[str, Any], v: Verdict) -> None:
    calls: list[dict[str, Any]] = []
    extra_recs: list[dict[str, Any]] = []
    state: dict[str, Any] = {}

    class Svc(BackgroundService):
        def start(self) -> None:
            for kind, n in case["tasks"]:
                self._tasks.add(asyncio.create_task(self._work(kind, n)))

        async def _work(self, kind: str, n: int) -> None:
            for _ in range(n):
                await asyncio.sleep(1.0)
            await _extra(kind)

    async def scenario() -> None:
        loop = asyncio.get_running_loop()
        svc = Svc(name="svc")
        svc.start()
        all_tasks = set(svc.tasks)
        for op in case["ops"]:
            now = loop.time()
            if op[0] == "cancel":
                svc.cancel()
            elif op[0] in ("stop", "wait"):
                snapshot = set(svc.tasks)
                task = asyncio.create_task(svc.stop() if op[0] == "stop" else svc.wait())
                call = {"op": op[0], "t": now, "task": task, "snapshot": snapshot, "t_done": None,
                        # tasks of the service that had already failed when the call was made
                        "failed_at_call": [t for t in snapshot if t.done() and not t.cancelled() and t.exception() is not None]}
                task.add_done_callback(lambda _t, c=call: c.__setitem__("t_done", loop.time()))
                calls.append(call)
            elif op[0] == "extra" and svc.tasks:
                t = asyncio.create_task(_extra(op[1]))
                all_tasks.add(t)
                rec = {"task": t, "t_add": now, "t_done": None}
                t.add_done_callback(lambda _t, r=rec: r.__setitem__("t_done", loop.time()))
                extra_recs.append(rec)
                svc._tasks.add(t)  # pylint: disable=protected-access
            elif op[0] == "adv":
                await asyncio.sleep(op[1])
            await world.settle()
        await asyncio.sleep(60.0)
        for c in calls:
            c["done"] = c["task"].done()
            c["exc"] = c["task"].exception() if c["done"] and not c["task"].cancelled() else None
            c["snapshot_done"] = all(t.done() for t in c["snapshot"])
        state["all_done"] = all(t.done() for t in all_tasks)
        for t in all_tasks:
            t.cancel()
        for c in calls:
            c["task"].cancel()
        await world.settle(3)

    world.run(scenario)
    had_wait = any(c["op"] == "wait" for c in calls)
    stops = [c for c in calls if c["op"] == "stop"]
    if stops:
        v.labels.add("service_stop")
    for c in stops:
        name = f"service stop() called at t={c['t']}"
        if not c["done"]:
            v.fail(f"{name} had not returned 60 s later although every task was cancelled")
            continue
        if not c["snapshot_done"]:
            v.fail(f"{name} returned while a task that existed when it was called is still running")
        members = _group_members(c["exc"])
        if any(isinstance(m, asyncio.CancelledError) for m in members):
            v.fail(f"{name} raised a group containing CancelledError")
        for task in c.get("failed_at_call", []):
            if not any(m is task.exception() for m in members):
                v.fail(f"{name} did not surface {task.exception()!r} of a task that had already failed when it was called "
                       f"(it surfaced {[repr(m) for m in members]})")
        if not had_wait:
            want = [t.exception() for t in c["snapshot"] if t.done() and not t.cancelled() and t.exception() is not None]
            if {id(m) for m in members} != {id(w) for w in want}:
                v.fail(f"{name} surfaced {[repr(m) for m in members]}, its tasks ended with {[repr(w) for w in want]}")
    _judge_dropped_errors(v, calls, extra_recs)
    v.labels.add("kind_service")
    v.nontrivial = bool(stops) and len(case["tasks"]) >= 2


# --------------------------------------------------------------------------- group kind


def _run_group(case: dict[str, Any], v: Verdict) -> None:
    traces: list[list[Any]] = [[] for _ in case["actors"]]
    obs: dict[str, Any] = {"done_at": None, "polls": []}

    async def scenario() -> None:
        loop = asyncio.get_running_loop()
        actors = [_make_actor([[n, o, "propagate"] for n, o in script], case["limit"], case["delay"], traces[i], terminate=True)
                  for i, script in enumerate(case["actors"])]
        task = asyncio.create_task(run(*actors))
        for _ in range(200):
            await world.settle()
            running = [a.is_running for a in actors]
            obs["polls"].append((loop.time(), task.done(), any(running)))
            if task.done() and obs["done_at"] is None:
                obs["done_at"] = loop.time()
            if task.done() and not any(running):
                break
            await asyncio.sleep(0.5)
        obs["exc"] = task.exception() if task.done() and not task.cancelled() else None
        task.cancel()
        for a in actors:
            a.cancel()
        await world.settle(3)

    world.run(scenario)
    v.labels.add("kind_group")
    for t, done, any_running in obs["polls"]:
        if done and any_running:
            v.fail(f"run() had returned at t={t} while an actor was still running")
            return
        if not done and not any_running:
            v.fail(f"all actors had finished at t={t} (quiescent) but run() had not returned")
            return
    if obs["done_at"] is None:
        v.fail("run() never returned although all actors terminate")
    if obs.get("exc") is not None:
        v.fail(f"run() raised {obs['exc']!r}")
    v.nontrivial = len(case["actors"]) >= 2


def _run_resampling_actor(case: dict[str, Any], v: Verdict) -> None:
    """stop() of a real SDK actor: every task it spawned has ended, nothing is emitted afterwards."""
    import dataclasses  # pylint: disable=import-outside-toplevel

    from frequenz.channels import Broadcast  # pylint: disable=import-outside-toplevel
    from frequenz.client.microgrid import ComponentMetricId  # pylint: disable=import-outside-toplevel
    from frequenz.quantities import Quantity  # pylint: disable=import-outside-toplevel
    from frequenz.sdk._internal._channels import ChannelRegistry  # pylint: disable=import-outside-toplevel
    from frequenz.sdk.microgrid._data_sourcing import ComponentMetricRequest  # pylint: disable=import-outside-toplevel
    from frequenz.sdk.microgrid._resampling import ComponentMetricsResamplingActor  # pylint: disable=import-outside-toplevel
    from frequenz.sdk.timeseries import ResamplerConfig, Sample  # pylint: disable=import-outside-toplevel

    n = case["nseries"]
    counts = [0] * n
    info: dict[str, Any] = {}

    async def scenario() -> None:
        before = {t for t in asyncio.all_tasks()}
        registry = ChannelRegistry(name="c10")
        ds_requests: Any = Broadcast(name="ds-requests")
        keep = ds_requests.new_receiver(limit=1000)
        rs_requests: Any = Broadcast(name="rs-requests")
        actor = ComponentMetricsResamplingActor(
            channel_registry=registry, data_sourcing_request_sender=ds_requests.new_sender(),
            resampling_request_receiver=rs_requests.new_receiver(limit=1000),
            config=ResamplerConfig(resampling_period=timedelta(seconds=1.0)))
        actor.start()
        req_tx = rs_requests.new_sender()
        mine: list[asyncio.Task[None]] = []
        sources = []
        for i in range(n):
            req = ComponentMetricRequest("ns", 100 + i, ComponentMetricId.ACTIVE_POWER, None)
            rx = registry.get_or_create(Sample[Quantity], req.get_channel_name()).new_receiver(limit=100000)

            async def collect(rx: Any = rx, i: int = i) -> None:
                async for _sample in rx:
                    counts[i] += 1

            mine.append(asyncio.create_task(collect()))
            await req_tx.send(req)
            src = dataclasses.replace(req, namespace=req.namespace + ":Source")
            sources.append(registry.get_or_create(Sample[Quantity], src.get_channel_name()))
        await world.settle(3)

        async def feed() -> None:
            senders = [c.new_sender() for c in sources]
            k = 0
            while True:
                for i, tx in enumerate(senders):
                    if info.get("closed") == i:
                        continue
                    await tx.send(Sample(world.now(), Quantity(float(k))))
                k += 1
                await asyncio.sleep(0.5)

        mine.append(asyncio.create_task(feed()))
        if case["close_at"] is not None:
            await asyncio.sleep(case["close_at"] + 0.25)
            which = case["close_which"] % n
            info["closed"] = which
            await sources[which].close()
            v.labels.add("source_of_a_real_actor_closed")
        await asyncio.sleep(case["run_for"] + 0.25)
        if not actor.is_running:
            v.fail("the resampling actor stopped running by itself after a source failed")
        if case["how"] == "stop":
            await actor.stop()
        else:
            actor.cancel()
            try:
                await actor.wait()
            except BaseException:  # pylint: disable=broad-except
                pass
        info["counts_at_stop"] = list(counts)
        info["running_after"] = actor.is_running
        info["tasks_not_done"] = [t for t in actor.tasks if not t.done()]
        # a stopped actor does not work any more: a request sent now must not be served
        while True:
            try:
                await asyncio.wait_for(keep.receive(), timeout=1e-6)
            except asyncio.TimeoutError:
                break
        await req_tx.send(ComponentMetricRequest("ns", 900, ComponentMetricId.ACTIVE_POWER, None))
        await asyncio.sleep(5.0)
        info["counts_later"] = list(counts)
        try:
            info["served_after_stop"] = await asyncio.wait_for(keep.receive(), timeout=1e-6)
        except asyncio.TimeoutError:
            info["served_after_stop"] = None
        for t in mine:
            t.cancel()
        await world.settle(3)
        leftover = [t for t in asyncio.all_tasks() if t not in before and t is not asyncio.current_task() and not t.done()
                    and t not in mine]
        info["leftover"] = [repr(t.get_coro())[:120] for t in leftover]
        for t in leftover:
            t.cancel()
        del keep

    world.run(scenario)
    v.labels.add("kind_resampling_actor")
    v.nontrivial = case["close_at"] is not None
    if info.get("running_after"):
        v.fail("is_running is True after stop() / cancel()+wait() returned")
    if info.get("tasks_not_done"):
        v.fail(f"stop() returned while {len(info['tasks_not_done'])} task(s) of the actor had not finished")
    if info.get("counts_later") != info.get("counts_at_stop"):
        v.fail(f"samples kept arriving after stop() returned: {info.get('counts_at_stop')} -> {info.get('counts_later')} "
               f"in the following 5 s (a task spawned by the actor is still running)")
    if info.get("served_after_stop") is not None:
        v.fail(f"a subscription request sent after stop() returned was still served (forwarded to the data source: "
               f"{info['served_after_stop']}): a task spawned by the actor is still running")
    if info.get("leftover"):
        # the Resampler's per-series receive tasks outlive the actor (it never stops its Resampler); they are idle
        # and not in the actor's task set, so the statement does not clearly cover them: recorded, not judged
        v.labels.add("idle_helper_tasks_outlive_the_real_actor")


def run_case(case: Any, pid: str) -> Verdict:
    del pid
    v = Verdict()
    if case["kind"] == "resampling_actor":
        _run_resampling_actor(case, v)
        return v
    if case["kind"] == "actor":
        v.labels.add("kind_actor")
        _run_actor(case, v)
    elif case["kind"] == "service":
        _run_service(case, v)
    else:
        _run_group(case, v)
    return v


def describe(case: Any) -> Any:
    return case
