"""C17 — power inside a pool's advertised bounds is never rejected as out of bounds.

Differential: advertised SystemBounds (PowerBoundsCalculator) vs admission by a real
BatteryManager fed the same data through the fake API.
"""

from __future__ import annotations

import asyncio
from datetime import timedelta
from typing import Any

from hypothesis import strategies as st

from frequenz.client.microgrid import ComponentMetricId as M
from frequenz.sdk.microgrid._power_distributing.result import Error, OutOfBounds
from frequenz.sdk.timeseries.battery_pool._component_metrics import ComponentMetricsData
from frequenz.sdk.timeseries.battery_pool._metric_calculator import PowerBoundsCalculator

from .. import batsys, world
from ..core import Verdict

IDS = ("C17",)
BUDGET = {"quick": 1200, "thorough": 8000}
SIZE_BOUNDS = {
    "quick": "1-4 groups of 1-3 batteries x 1-3 inverters (complete bipartite: shared inverters and shared batteries), "
             "bounds on an integer/half grid <= 5000 W, <= 20 probe powers x 2 adjust_power settings per data set",
    "thorough": "1-5 groups, same ranges",
}
RULE = {
    "C17": (
        "Hypothesis-generated topologies (k batteries behind m inverters per group, so inverters and batteries are shared) "
        "with consistent bounds on an integer/half grid (sums exact in binary64). Advertised bounds = "
        "PowerBoundsCalculator.calculate on complete metrics; probes = each advertised bound b and b+-0.5, b+-1, restricted to "
        "non-zero values the advertised bounds admit; each probe is sent to a real BatteryManager with adjust_power True and "
        "False. Oracle: never OutOfBounds (strictly outside the exclusion zone; exactly on an exclusion bound is recorded but "
        "not demanded), |p| >= sum of group minimum powers, enforced inclusion bounds (read from an OutOfBounds provoked just "
        "outside) == advertised. Then, on the same manager, one generated battery reports all four bounds scaled by "
        "0.5 / 2 / 0 in a message stamped 1 ms older than, equal to or 1 ms newer than its siblings' latest message, delivered "
        "after a request has been served on the siblings' data; advertised bounds are recomputed from the latest received "
        "data and the whole probe round is repeated. Finally the status tracker declares a generated subset of the batteries "
        "not working (their data stay complete), advertised bounds are computed for the working set and the probe round is "
        "repeated with requests that still name every battery. Last, a send-on-update aggregator (what the pool streams) is "
        "attached, the upper bounds of group 0 drift down by 5e-7 (relative) per message for 25 messages, and a power "
        "1e-9 inside the inclusion bound streamed last must not be rejected; and a battery of a multi-battery set is declared not "
        "working, everything keeps streaming, then that battery alone reports halved bounds: again what is streamed last must "
        "not admit more than the distributor. Non-trivial = >=2 groups with different exclusion bounds or a shared inverter/battery; "
        "distinct by SHA-1 of the canonical JSON case."
    )
}
ASSUMPTIONS = [
    "complete data: every battery and inverter reports all four bounds; the working set is what the (stubbed) status "
    "tracker says: all batteries in phases 1-2, a generated subset in phase 3",
    "bounds on an integer/half grid so that summation order cannot create 1-ulp differences",
    "a probe exactly on an advertised exclusion bound is not required to be accepted (SystemBounds.__contains__ excludes it)",
]
MIN_LABELS = {"C17": {"shared": 0.3, "multi_group_diff_excl": 0.2, "probe_on_incl_bound": 0.5, "data_update_phase": 0.5,
                      "update_with_older_timestamp_than_sibling": 0.1, "status_phase_some_not_working": 0.5,
                      "streamed_bounds_after_slow_drift": 0.3, "non_working_member_of_a_working_set_changes_its_bounds": 0.2,
                      "battery_set_partially_working": 0.1}}


def strategy(tier: str, pid: str = "C17") -> st.SearchStrategy[Any]:
    del pid
    return st.fixed_dictionaries({
        "groups": batsys.groups(max_groups=4 if tier == "quick" else 5, grid_only=True),
        # second phase on the same manager: one battery reports scaled bounds in a message stamped slightly
        # older / equal / newer than what its siblings sent last (the latest *received* data must govern)
        "update": st.fixed_dictionaries({
            "group": st.integers(0, 4), "bat": st.integers(0, 2),
            "factor": st.sampled_from([0.5, 2.0, 0.0]),
            "ts_offset_ms": st.sampled_from([-1, -1, 0, 1]),
        }),
        # third phase: the status tracker declares a generated subset of the batteries not working (data stay
        # complete); advertised bounds are computed for the working set, the request still names all batteries
        "down": st.lists(st.booleans(), min_size=12, max_size=12),
    })


def _metrics(case: dict[str, Any]) -> tuple[dict[int, ComponentMetricsData], set[int]]:
    data = {}
    bats = set()
    for g, (bids, iids) in zip(case["groups"], batsys.assign_ids(case["groups"])):
        for cid, b in zip(bids, g["bats"]):
            bats.add(cid)
            data[cid] = ComponentMetricsData(cid, world.T0, {
                M.POWER_INCLUSION_LOWER_BOUND: b["il"], M.POWER_EXCLUSION_LOWER_BOUND: b["el"],
                M.POWER_EXCLUSION_UPPER_BOUND: b["eu"], M.POWER_INCLUSION_UPPER_BOUND: b["iu"]})
        for cid, i in zip(iids, g["invs"]):
            data[cid] = ComponentMetricsData(cid, world.T0, {
                M.ACTIVE_POWER_INCLUSION_LOWER_BOUND: i["il"], M.ACTIVE_POWER_EXCLUSION_LOWER_BOUND: i["el"],
                M.ACTIVE_POWER_EXCLUSION_UPPER_BOUND: i["eu"], M.ACTIVE_POWER_INCLUSION_UPPER_BOUND: i["iu"]})
    return data, bats


def run_case(case: Any, pid: str) -> Verdict:
    del pid
    v = Verdict()
    groups = case["groups"]
    gbs = [batsys.group_bounds(g) for g in groups]
    shared = any(len(g["bats"]) >= 2 or len(g["invs"]) >= 2 for g in groups)
    excls = {(gb["adv_excl_lo"], gb["adv_excl_up"]) for gb in gbs}
    if shared:
        v.labels.add("shared")
    if len(groups) >= 2 and len(excls) >= 2:
        v.labels.add("multi_group_diff_excl")
    v.nontrivial = shared or (len(groups) >= 2 and len(excls) >= 2)

    async def scenario() -> None:
        async with batsys.ManagerWorld(groups) as mw:
            await probe_round(mw, case, "initial data")
            if v.violations:
                return
            case_now = await update_phase(mw)
            if v.violations:
                return
            await status_phase(mw, case_now)
            if v.violations:
                return
            await drift_phase(mw, case_now)
            if v.violations:
                return
            await stale_member_phase(mw, case_now)

    async def update_phase(mw: Any) -> dict[str, Any]:
        """Second phase: updated bounds for one battery, older / equal / newer timestamp.  Returns the data now in force."""
        upd = case.get("update")
        if not upd:
            return case
        gi = upd["group"] % len(groups)
        bi = upd["bat"] % len(groups[gi]["bats"])
        new_groups = [dict(g, bats=[dict(b) for b in g["bats"]], invs=[dict(i) for i in g["invs"]]) for g in groups]
        for key in ("iu", "il", "eu", "el"):
            new_groups[gi]["bats"][bi][key] = new_groups[gi]["bats"][bi][key] * upd["factor"] + 0.0
        gb = batsys.group_bounds(new_groups[gi])
        if gb["min_power_up"] > gb["incl_up"] or gb["min_power_lo"] > gb["incl_lo"]:
            v.labels.add("update_skipped_inconsistent")
            return case
        cid = mw.ids[gi][0][bi]
        await asyncio.sleep(1.0)   # the battery's own messages stay in time order
        # everything else reports again first and a request is served on that data; only then does the
        # changed battery's message arrive, stamped older / equal / newer than its siblings' latest
        t_feed = world.now()
        stamp = t_feed + timedelta(milliseconds=upd["ts_offset_ms"])
        for g, (bids, iids) in zip(groups, mw.ids):
            for other, b in zip(bids, g["bats"]):
                if other != cid:
                    await mw.api.send(other, batsys.make_battery(other, b, t_feed))
            for other, i in zip(iids, g["invs"]):
                await mw.api.send(other, batsys.make_inverter(other, i, t_feed))
        await world.settle(2)
        await mw.request(1.0, adjust_power=True)
        await mw.api.send(cid, batsys.make_battery(cid, new_groups[gi]["bats"][bi], stamp))
        await world.settle(2)
        v.labels.add("data_update_phase")
        if upd["ts_offset_ms"] <= 0 and len(groups[gi]["bats"]) >= 2:
            v.labels.add("update_with_older_timestamp_than_sibling")
        case_now = dict(case, groups=new_groups)
        await probe_round(mw, case_now, f"after battery {cid} reported bounds scaled by {upd['factor']}")
        return case_now

    async def status_phase(mw: Any, case_now: dict[str, Any]) -> None:
        """Third phase: some batteries are declared not working by the status tracker; their data stay complete."""
        all_bats = [b for bids, _ in mw.ids for b in bids]
        down = {b for k, b in enumerate(all_bats) if case.get("down", [False])[k % len(case.get("down", [False]))]}
        if not down or len(down) == len(all_bats):
            return
        tracker = mw.manager._component_pool_status_tracker  # pylint: disable=protected-access
        tracker.not_working = set(down)
        v.labels.add("status_phase_some_not_working")
        if any(0 < len(set(bids) & down) < len(bids) for bids, _ in mw.ids):
            v.labels.add("battery_set_partially_working")
        await probe_round(mw, case_now, f"with batteries {sorted(down)} declared not working", set(all_bats) - down)

    async def drift_phase(mw: Any, case_now: dict[str, Any]) -> None:
        """Fourth phase: the bounds the pool *streams* (send-on-update pipeline) after a slow drift of one group's upper bounds."""
        from frequenz.sdk.timeseries.battery_pool._methods import SendOnUpdate  # pylint: disable=import-outside-toplevel

        tracker = mw.manager._component_pool_status_tracker  # pylint: disable=protected-access
        tracker.not_working = set()
        groups_d = [dict(g, bats=[dict(b) for b in g["bats"]], invs=[dict(i) for i in g["invs"]]) for g in case_now["groups"]]
        gb0 = batsys.group_bounds(groups_d[0])
        if gb0["incl_up"] <= 0 or gb0["min_power_up"] >= gb0["incl_up"] * (1.0 - 1e-3):
            return
        all_bats = {b for bids, _ in mw.ids for b in bids}
        agg = SendOnUpdate(working_batteries=set(all_bats), metric_calculator=PowerBoundsCalculator(all_bats),
                           min_update_interval=timedelta(seconds=0.05))
        rx = agg.new_receiver(limit=10000)
        await world.settle(2)
        await mw.feed_groups(groups_d)
        await asyncio.sleep(2.6)   # the aggregator emits nothing before its 2 s start-up wait
        bids0, iids0 = mw.ids[0]
        for _ in range(25):
            for comp in groups_d[0]["bats"] + groups_d[0]["invs"]:
                comp["iu"] = comp["iu"] * (1.0 - 5e-7)
            now = world.now()
            for cid, b in zip(bids0, groups_d[0]["bats"]):
                await mw.api.send(cid, batsys.make_battery(cid, b, now))
            for cid, i in zip(iids0, groups_d[0]["invs"]):
                await mw.api.send(cid, batsys.make_inverter(cid, i, now))
            await asyncio.sleep(0.06)
        # keep everything fresh, then read what the pool streams last
        await mw.feed_groups(groups_d)
        await asyncio.sleep(0.3)
        latest = None
        while True:
            try:
                latest = await asyncio.wait_for(rx.receive(), timeout=1e-6)
            except asyncio.TimeoutError:
                break
        await agg.stop()
        if latest is None or latest.inclusion_bounds is None:
            return
        v.labels.add("streamed_bounds_after_slow_drift")
        up = latest.inclusion_bounds.upper.as_watts()
        probe = up * (1.0 - 1e-9)
        if probe <= 0 or (latest.exclusion_bounds is not None and probe < latest.exclusion_bounds.upper.as_watts()):
            return
        res = await mw.request(probe, adjust_power=False)
        if isinstance(res, OutOfBounds):
            v.fail(f"[after a slow drift of group 0's upper bounds] {probe} W is inside the inclusion bounds the pool streams "
                   f"last ({latest.inclusion_bounds}) but was answered OutOfBounds {res.bounds}")

    async def stale_member_phase(mw: Any, case_now: dict[str, Any]) -> None:
        """Fifth phase: a battery that is *not* working, in a set with a working one, keeps streaming and then reports
        halved bounds; what the pool streams afterwards must still admit only what the distributor admits."""
        from frequenz.sdk.timeseries.battery_pool._methods import SendOnUpdate  # pylint: disable=import-outside-toplevel

        gi = next((k for k, (bids, _) in enumerate(mw.ids) if len(bids) >= 2), None)
        if gi is None:
            return
        groups_s = [dict(g, bats=[dict(b) for b in g["bats"]], invs=[dict(i) for i in g["invs"]]) for g in case_now["groups"]]
        for key in ("iu", "il", "eu", "el"):
            groups_s[gi]["bats"][0][key] = groups_s[gi]["bats"][0][key] * 0.5 + 0.0
        gb = batsys.group_bounds(groups_s[gi])
        if gb["min_power_up"] > gb["incl_up"] or gb["min_power_lo"] > gb["incl_lo"]:
            return
        all_bats = {b for bids, _ in mw.ids for b in bids}
        victim = mw.ids[gi][0][0]
        tracker = mw.manager._component_pool_status_tracker  # pylint: disable=protected-access
        agg = SendOnUpdate(working_batteries=set(all_bats), metric_calculator=PowerBoundsCalculator(all_bats),
                           min_update_interval=timedelta(seconds=0.05))
        rx = agg.new_receiver(limit=10000)
        await world.settle(2)
        for _ in range(6):   # component data older than 2 s count as missing: keep everything fresh
            await mw.feed_groups(case_now["groups"])
            await asyncio.sleep(0.5)
        tracker.not_working = {victim}
        agg.update_working_batteries(set(all_bats) - {victim})
        await asyncio.sleep(0.2)
        # everything keeps streaming (the aggregator forgot the victim and its inverters when the status changed) ...
        await mw.feed_groups(case_now["groups"])
        await asyncio.sleep(0.3)
        # ... and then only the victim reports new bounds
        await mw.api.send(victim, batsys.make_battery(victim, groups_s[gi]["bats"][0], world.now()))
        await asyncio.sleep(0.3)
        latest = None
        while True:
            try:
                latest = await asyncio.wait_for(rx.receive(), timeout=1e-6)
            except asyncio.TimeoutError:
                break
        await agg.stop()
        if latest is None or latest.inclusion_bounds is None:
            tracker.not_working = set()
            v.labels.add("stale_member_phase_without_streamed_bounds")
            return
        v.labels.add("non_working_member_of_a_working_set_changes_its_bounds")
        for bound, side in ((latest.inclusion_bounds.upper.as_watts(), "upper"), (latest.inclusion_bounds.lower.as_watts(), "lower")):
            probe = bound * (1.0 - 1e-9)
            excl = latest.exclusion_bounds
            if probe == 0 or (excl is not None and excl.lower.as_watts() < probe < excl.upper.as_watts()):
                continue
            res = await mw.request(probe, adjust_power=False)
            if isinstance(res, OutOfBounds):
                v.fail(f"[battery {victim} not working, its set still working, its bounds halved] {probe} W is inside the {side} "
                       f"inclusion bound the pool streams last ({latest.inclusion_bounds}) but was answered OutOfBounds {res.bounds}")
        tracker.not_working = set()

    async def probe_round(mw: Any, case_now: dict[str, Any], phase: str, working: set[int] | None = None) -> None:
        groups_now = case_now["groups"]
        data, bats = _metrics(case_now)
        working = set(bats) if working is None else working
        # a battery set counts as a whole as soon as one of its batteries works (calculator and manager agree on that)
        live = [g for g, (bids, _) in zip(groups_now, mw.ids) if set(bids) & working]
        gbs_now = [batsys.group_bounds(g) for g in live]
        min_up = sum(gb["min_power_up"] for gb in gbs_now)
        min_lo = sum(gb["min_power_lo"] for gb in gbs_now)
        sb = PowerBoundsCalculator(bats).calculate(data, set(working))
        if sb.inclusion_bounds is None or sb.exclusion_bounds is None:
            v.fail("complete data but the calculator advertises no bounds")
            return
        il, iu = sb.inclusion_bounds.lower.as_watts(), sb.inclusion_bounds.upper.as_watts()
        el, eu = sb.exclusion_bounds.lower.as_watts(), sb.exclusion_bounds.upper.as_watts()
        if not (il <= el and eu <= iu):
            # inverter exclusion bounds may add up to more than the group can take; the
            # property says nothing about that shape, it only leaves fewer admitted probes
            v.labels.add("advertised_exclusion_exceeds_inclusion")
        probes = set()
        for b in (il, el, eu, iu):
            probes |= {b, b - 1.0, b + 1.0, b - 0.5, b + 0.5}
        for p in sorted(probes):
            if p == 0 or not il <= p <= iu or el < p < eu:
                continue
            on_excl = p in (el, eu)
            if p in (il, iu):
                v.labels.add("probe_on_incl_bound")
            if on_excl:
                v.labels.add("probe_on_excl_bound")
            if (p > 0 and p < min_up) or (p < 0 and -p < min_lo):
                v.fail(f"[{phase}] advertised bounds admit {p} W but the groups' minimum powers sum to "
                       f"{min_up if p > 0 else -min_lo} W")
            for adjust in (True, False):
                res = await mw.request(p, adjust_power=adjust)
                if isinstance(res, OutOfBounds) and not on_excl:
                    v.fail(f"[{phase}] {p} W is inside advertised bounds incl [{il}, {iu}] excl [{el}, {eu}] but "
                           f"adjust_power={adjust} was answered OutOfBounds {res.bounds}")
                elif isinstance(res, Error):
                    v.fail(f"{p} W adjust_power={adjust} answered Error: {res.msg}")
        # enforced inclusion bounds, read from a rejection provoked just outside
        for outside, which in ((iu + 1.0, "upper"), (il - 1.0, "lower")):
            res = await mw.request(outside, adjust_power=False)
            if not isinstance(res, OutOfBounds):
                v.fail(f"{outside} W is outside the advertised inclusion bounds [{il}, {iu}] but was not rejected "
                       f"({type(res).__name__}): enforced and advertised {which} inclusion bound differ")
            elif (res.bounds.inclusion_lower, res.bounds.inclusion_upper) != (il, iu):
                v.fail(f"[{phase}] enforced inclusion bounds [{res.bounds.inclusion_lower}, {res.bounds.inclusion_upper}] != "
                       f"advertised [{il}, {iu}]")

    try:
        world.run(scenario)
    except Exception as exc:  # pylint: disable=broad-except
        v.fail(f"raised {type(exc).__name__}: {exc}")
    return v


def describe(case: Any) -> Any:
    return case
