"""C17 — power inside a pool's advertised bounds is never rejected as out of bounds.

Differential: advertised SystemBounds (PowerBoundsCalculator) vs admission by a real
BatteryManager fed the same data through the fake API.
"""

from __future__ import annotations

from typing import Any

from hypothesis import strategies as st

from frequenz.client.microgrid import ComponentMetricId as M
from frequenz.sdk.microgrid._power_distributing.result import Error, OutOfBounds
from frequenz.sdk.timeseries.battery_pool._component_metrics import ComponentMetricsData
from frequenz.sdk.timeseries.battery_pool._metric_calculator import PowerBoundsCalculator

from .. import batsys, world
from ..core import Verdict

IDS = ("C17",)
BUDGET = {"quick": 1500, "thorough": 8000}
SIZE_BOUNDS = {
    "quick": "1-4 groups of 1-3 batteries x 1-3 inverters (complete bipartite: shared inverters and shared batteries), "
             "bounds on an integer/half grid <= 5000 W, <= 20 probe powers x 2 adjust_power settings per data set",
    "thorough": "1-5 groups, same ranges",
}
RULE = {
    "C17": (
        "Hypothesis-generated topologies (k batteries behind m inverters per group, so inverters and batteries are shared) "
        "with consistent bounds on an integer/half grid (sums exact in binary64). Advertised bounds = "
        "PowerBoundsCalculator.calculate on complete metrics; probes = each advertised bound b and b+-0.5, b+-1, restricted to "
        "non-zero values the advertised bounds admit; each probe is sent to a real BatteryManager with adjust_power True and "
        "False. Oracle: never OutOfBounds (strictly outside the exclusion zone; exactly on an exclusion bound is recorded but "
        "not demanded), |p| >= sum of group minimum powers, enforced inclusion bounds (read from an OutOfBounds provoked just "
        "outside) == advertised. Non-trivial = >=2 groups with different exclusion bounds or a shared inverter/battery; "
        "distinct by SHA-1 of the canonical JSON case."
    )
}
ASSUMPTIONS = [
    "complete data: every battery and inverter reports all four bounds; all batteries working",
    "bounds on an integer/half grid so that summation order cannot create 1-ulp differences",
    "a probe exactly on an advertised exclusion bound is not required to be accepted (SystemBounds.__contains__ excludes it)",
]
MIN_LABELS = {"C17": {"shared": 0.3, "multi_group_diff_excl": 0.2, "probe_on_incl_bound": 0.5}}


def strategy(tier: str, pid: str = "C17") -> st.SearchStrategy[Any]:
    del pid
    return st.fixed_dictionaries({"groups": batsys.groups(max_groups=4 if tier == "quick" else 5, grid_only=True)})


def _metrics(case: dict[str, Any]) -> tuple[dict[int, ComponentMetricsData], set[int]]:
    data = {}
    bats = set()
    for g, (bids, iids) in zip(case["groups"], batsys.assign_ids(case["groups"])):
        for cid, b in zip(bids, g["bats"]):
            bats.add(cid)
            data[cid] = ComponentMetricsData(cid, world.T0, {
                M.POWER_INCLUSION_LOWER_BOUND: b["il"], M.POWER_EXCLUSION_LOWER_BOUND: b["el"],
                M.POWER_EXCLUSION_UPPER_BOUND: b["eu"], M.POWER_INCLUSION_UPPER_BOUND: b["iu"]})
        for cid, i in zip(iids, g["invs"]):
            data[cid] = ComponentMetricsData(cid, world.T0, {
                M.ACTIVE_POWER_INCLUSION_LOWER_BOUND: i["il"], M.ACTIVE_POWER_EXCLUSION_LOWER_BOUND: i["el"],
                M.ACTIVE_POWER_EXCLUSION_UPPER_BOUND: i["eu"], M.ACTIVE_POWER_INCLUSION_UPPER_BOUND: i["iu"]})
    return data, bats


def run_case(case: Any, pid: str) -> Verdict:
    del pid
    v = Verdict()
    groups = case["groups"]
    gbs = [batsys.group_bounds(g) for g in groups]
    shared = any(len(g["bats"]) >= 2 or len(g["invs"]) >= 2 for g in groups)
    excls = {(gb["adv_excl_lo"], gb["adv_excl_up"]) for gb in gbs}
    if shared:
        v.labels.add("shared")
    if len(groups) >= 2 and len(excls) >= 2:
        v.labels.add("multi_group_diff_excl")
    v.nontrivial = shared or (len(groups) >= 2 and len(excls) >= 2)
    min_up = sum(gb["min_power_up"] for gb in gbs)
    min_lo = sum(gb["min_power_lo"] for gb in gbs)

    async def scenario() -> None:
        async with batsys.ManagerWorld(groups) as mw:
            data, bats = _metrics(case)
            sb = PowerBoundsCalculator(bats).calculate(data, set(bats))
            if sb.inclusion_bounds is None or sb.exclusion_bounds is None:
                v.fail("complete data but the calculator advertises no bounds")
                return
            il, iu = sb.inclusion_bounds.lower.as_watts(), sb.inclusion_bounds.upper.as_watts()
            el, eu = sb.exclusion_bounds.lower.as_watts(), sb.exclusion_bounds.upper.as_watts()
            if not (il <= el and eu <= iu):
                # inverter exclusion bounds may add up to more than the group can take; the
                # property says nothing about that shape, it only leaves fewer admitted probes
                v.labels.add("advertised_exclusion_exceeds_inclusion")
            probes = set()
            for b in (il, el, eu, iu):
                probes |= {b, b - 1.0, b + 1.0, b - 0.5, b + 0.5}
            for p in sorted(probes):
                if p == 0 or not il <= p <= iu or el < p < eu:
                    continue
                on_excl = p in (el, eu)
                if p in (il, iu):
                    v.labels.add("probe_on_incl_bound")
                if on_excl:
                    v.labels.add("probe_on_excl_bound")
                if (p > 0 and p < min_up) or (p < 0 and -p < min_lo):
                    v.fail(f"advertised bounds admit {p} W but the groups' minimum powers sum to "
                           f"{min_up if p > 0 else -min_lo} W")
                for adjust in (True, False):
                    res = await mw.request(p, adjust_power=adjust)
                    if isinstance(res, OutOfBounds) and not on_excl:
                        v.fail(f"{p} W is inside advertised bounds incl [{il}, {iu}] excl [{el}, {eu}] but "
                               f"adjust_power={adjust} was answered OutOfBounds {res.bounds}")
                    elif isinstance(res, Error):
                        v.fail(f"{p} W adjust_power={adjust} answered Error: {res.msg}")
            # enforced inclusion bounds, read from a rejection provoked just outside
            for outside, which in ((iu + 1.0, "upper"), (il - 1.0, "lower")):
                res = await mw.request(outside, adjust_power=False)
                if not isinstance(res, OutOfBounds):
                    v.fail(f"{outside} W is outside the advertised inclusion bounds [{il}, {iu}] but was not rejected "
                           f"({type(res).__name__}): enforced and advertised {which} inclusion bound differ")
                elif (res.bounds.inclusion_lower, res.bounds.inclusion_upper) != (il, iu):
                    v.fail(f"enforced inclusion bounds [{res.bounds.inclusion_lower}, {res.bounds.inclusion_upper}] != "
                           f"advertised [{il}, {iu}]")

    try:
        world.run(scenario)
    except Exception as exc:  # pylint: disable=broad-except
        v.fail(f"raised {type(exc).__name__}: {exc}")
    return v


def describe(case: Any) -> Any:
    return case
