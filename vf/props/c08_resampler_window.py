"""C08 — resampled values use exactly the recent, non-future input samples.

A recording resampling function (public ResamplerConfig) captures the sequence the
resampler considers relevant at every tick; the harness recomputes the relevance window
from the arrival script it generated.
"""

from __future__ import annotations

import asyncio
import math
from datetime import datetime, timedelta, timezone
from zoneinfo import ZoneInfo
from typing import Any

from hypothesis import strategies as st

from frequenz.channels import Broadcast
from frequenz.quantities import Quantity
from frequenz.sdk.timeseries import Sample
from frequenz.sdk.timeseries._resampling import Resampler, ResamplerConfig

from .. import world
from ..core import Verdict

IDS = ("C08",)
BUDGET = {"quick": 3000, "thorough": 10000}
SIZE_BOUNDS = {
    "quick": "period 0.2/1/7 s, max age 1/1.5/2/3 periods, initial buffer 1/2/4/16, <= 20 ticks x <= 6 arrivals on a quarter-period grid",
    "thorough": "same configuration space, <= 60 ticks",
}
RULE = {
    "C08": (
        "Hypothesis-generated arrival scripts on a grid of period/4: per tick 0-6 arrivals with inter-arrival times from "
        "{0 (burst), 1, 2, 4 quarters}, sample timestamp = arrival time + {0, -1, +1, +2, +5, +8, -4, -6, -12 quarters} kept "
        "non-decreasing (so stamps land exactly on T, exactly on T - age*period, and in the future), value valid / None / NaN, "
        "runs of silent ticks longer than the maximum age. A recording resampling function supplied through ResamplerConfig "
        "captures what it is handed. Oracle per tick T with A = valid samples in arrival order and P_in = the input period the "
        "resampler itself reports: the recorded sequence F equals [s in last c of A : T - age*max(period, P_in) < s.ts <= T] for "
        "some capacity c (exactly initial_buffer_len while no input period has been estimated, 1..max_buffer_len afterwards); "
        "no future, expired, None or NaN sample; emitted value None <=> function not called <=> F empty; if the newest arrival "
        "is in the window F is not empty. Non-trivial = a tick with a sample exactly on a window edge, or a future-stamped "
        "sample pending, or a silence longer than the maximum age followed by data; distinct by SHA-1 of the canonical JSON case."
    )
}
ASSUMPTIONS = [
    "input timestamps are non-decreasing (the stated domain)",
    "the buffer capacity after the resampler estimated the input period is an internal estimate and is existentially quantified",
    "through a MovingWindow a sample that arrives at the very instant of a tick may be forwarded to the resampler after that tick",
]
MIN_LABELS = {"C08": {"sample_on_upper_edge": 0.3, "sample_on_lower_edge": 0.1, "future_sample_pending": 0.3,
                      "silence_then_data": 0.1, "input_period_estimated": 0.1}}


def strategy(tier: str, pid: str = "C08") -> st.SearchStrategy[Any]:
    del pid
    arrival = st.tuples(
        st.sampled_from([0, 1, 1, 2, 4]),
        st.sampled_from([0, 0, 0, -1, 1, 2, 5, 8, -4, -6, -12]),
        st.sampled_from(["v", "v", "v", "v", "none", "nan"]),
    ).map(list)
    tick = st.lists(arrival, min_size=0, max_size=6)
    silent_or_busy = st.one_of(tick, tick, st.just([]))
    return st.fixed_dictionaries({
        "period_ms": st.sampled_from([200, 1000, 1000, 7000]),
        "age": st.sampled_from([1.0, 1.5, 2.0, 3.0]),
        "ibl": st.sampled_from([1, 2, 4, 16]),
        "ticks": st.lists(silent_or_busy, min_size=3, max_size=20 if tier == "quick" else 60),
        # "dst": the run starts 3 s before a daylight-saving switch and the samples are stamped in that zone
        "zone": st.sampled_from(["utc", "utc", "utc", "dst"]),
        # 0: a Resampler driven tick by tick; 1-2: the same samples through a MovingWindow of that many periods that owns
        # its resampler (the recorder still sees what the resampling function is given)
        "window_periods": st.sampled_from([0, 0, 0, 1, 2]),
    })


def run_case(case: Any, pid: str) -> Verdict:
    del pid
    v = Verdict()
    p = timedelta(milliseconds=case["period_ms"])
    q = p / 4
    dst = case.get("zone") == "dst"
    t0 = datetime(2024, 3, 31, 0, 59, 57, tzinfo=timezone.utc) if dst else world.T0
    zone: Any = ZoneInfo("Europe/Berlin") if dst else timezone.utc
    if dst:
        v.labels.add("samples_stamped_in_a_zone_across_a_dst_switch")
    age = case["age"]
    calls: dict[str, Any] = {}

    def recorder(samples: Any, config: Any, props: Any) -> float:
        del config
        calls["cur"] = ([(s.timestamp, None if s.value is None else s.value.base_value) for s in samples],
                        props.sampling_period)
        return 1.0

    arrived: list[tuple[datetime, float]] = []  # valid samples in arrival order
    at_tick: list[bool] = []  # ... and whether the sample arrived at the very instant of a tick
    flags = {"silent_run": 0}

    async def scenario() -> None:
        cfg = ResamplerConfig(resampling_period=p, max_data_age_in_periods=age, resampling_function=recorder,
                              initial_buffer_len=case["ibl"], align_to=None)
        chan: Any = Broadcast(name="c08")
        rx = chan.new_receiver(limit=100000)
        out: list[Any] = []

        async def sink(sample: Any) -> None:
            out.append(sample)

        wper = case.get("window_periods", 0)
        mwin: Any = None
        if wper:
            from frequenz.sdk.timeseries._moving_window import MovingWindow  # pylint: disable=import-outside-toplevel

            mwin = MovingWindow(size=p * wper, resampled_data_recv=rx, input_sampling_period=p, resampler_config=cfg,
                                align_to=t0)
            mwin.start()
            resampler = mwin._resampler  # pylint: disable=protected-access
            v.labels.add("through_a_moving_window_that_owns_the_resampler")
        else:
            resampler = Resampler(cfg)
            resampler.add_timeseries("x", rx, sink)
        sender = chan.new_sender()
        last_ts = t0 - timedelta(days=1)
        ctr = 0
        pending_future: list[datetime] = []
        for n, tick in enumerate(case["ticks"], start=1):
            t_end = t0 + n * p
            t_arr = t_end - p
            for dq, off, kind in tick:
                t_arr = min(t_end, t_arr + dq * q)
                wait = (t_arr - world.now()).total_seconds()
                if wait > 0:
                    await asyncio.sleep(wait)
                stamp = max(last_ts, t_arr + off * q)
                last_ts = stamp
                ctr += 1
                value = Quantity(float(ctr)) if kind == "v" else (None if kind == "none" else Quantity(math.nan))
                await sender.send(Sample(stamp.astimezone(zone), value))
                await world.settle()
                if kind == "v":
                    arrived.append((stamp, float(ctr)))
                    at_tick.append(t_arr >= t_end)
                    if stamp > t_end:
                        pending_future.append(stamp)
            wait = (t_end - world.now()).total_seconds()
            if wait > 0:
                await asyncio.sleep(wait)
            await world.settle()
            if mwin is None:
                calls.pop("cur", None)
                n_before = len(out)
                try:
                    await resampler.resample(one_shot=True)
                except Exception as exc:  # pylint: disable=broad-except
                    v.fail(f"tick {n}: resample() raised {type(exc).__name__}: {str(exc)[:300]}")
                    return
                if len(out) != n_before + 1:
                    v.fail(f"tick {n}: {len(out) - n_before} samples emitted for one tick")
                    return
                emitted = out[-1]
                if emitted.timestamp != t_end:
                    v.fail(f"tick {n}: emitted sample stamped {emitted.timestamp}, expected {t_end}")
                    return
                source = rx
            else:
                # the window's own resampling task has handled this tick by now (the recorder ran if anything was relevant)
                source = next(iter(resampler._resamplers))  # pylint: disable=protected-access
                emitted = None
            called = "cur" in calls
            recorded, p_in = calls.get("cur", ([], resampler.get_source_properties(source).sampling_period))
            if mwin is not None:
                calls.pop("cur", None)
            if p_in is not None:
                v.labels.add("input_period_estimated")
            win = max(p, p_in) if p_in is not None else p
            lo = t_end - win * age
            if any(val is None or (isinstance(val, float) and math.isnan(val)) for _, val in recorded):
                v.fail(f"tick {n}: a None/NaN sample was passed to the resampling function: {recorded}")
                return
            if any(ts > t_end for ts, _ in recorded):
                v.fail(f"tick {n} (T={t_end}): a sample stamped after T was passed to the function: {recorded}")
                return
            if any(ts <= lo for ts, _ in recorded):
                v.fail(f"tick {n} (T={t_end}): a sample stamped at or before T - age*period = {lo} was passed: {recorded}")
                return
            caps = [case["ibl"]] if p_in is None else range(1, max(len(arrived), 1) + 1)
            ok = False
            pools = [arrived]
            if mwin is not None and any(at_tick):
                # through the window a sample that arrives at the very instant of the tick may be forwarded after it
                k_cut = len(arrived)
                while k_cut > 0 and at_tick[k_cut - 1]:
                    k_cut -= 1
                pools += [arrived[:k] for k in range(k_cut, len(arrived))]
            for pool in pools:
                for c in caps:
                    want = [s for s in pool[-c:] if lo < s[0] <= t_end]
                    if want == recorded:
                        ok = True
                        break
            if not arrived and not recorded:
                ok = True
            if not ok:
                v.fail(f"tick {n} (T={t_end}, window ({lo}, T], reported input period {p_in}, initial buffer {case['ibl']}): "
                       f"function got {recorded}; valid arrivals (newest last) {arrived[-8:]}")
                return
            if emitted is not None and ((emitted.value is None) != (not recorded) or called != bool(recorded)):
                v.fail(f"tick {n}: emitted value {emitted.value}, function called={called}, relevant samples {recorded}")
                return
            if arrived and lo < arrived[-1][0] <= t_end and not recorded and not (mwin is not None and at_tick[-1]):
                v.fail(f"tick {n}: the newest arrival {arrived[-1]} is inside the window but nothing was passed")
                return
            # classification
            if any(ts == t_end for ts, _ in arrived):
                v.labels.add("sample_on_upper_edge")
            if any(ts == lo for ts, _ in arrived):
                v.labels.add("sample_on_lower_edge")
            if any(ts > t_end for ts in pending_future):
                v.labels.add("future_sample_pending")
            if not tick:
                flags["silent_run"] += 1
            else:
                if flags["silent_run"] > age and arrived:
                    v.labels.add("silence_then_data")
                flags["silent_run"] = 0
        if mwin is not None:
            await mwin.stop()
        await resampler.stop()

    world.run(scenario, t0=t0)
    v.nontrivial = bool(v.labels & {"sample_on_upper_edge", "sample_on_lower_edge", "future_sample_pending", "silence_then_data"})
    return v


def describe(case: Any) -> Any:
    return case
