"""C07 — the resampled timeline is aligned, gap-free and shared by all series.

The harness owns the clock (virtual time, wall clock slaved to it): resampling period,
align_to, the creation instant relative to the grid, sink latencies, a late first call
and series added while running are generated values.
"""

from __future__ import annotations

import asyncio
from datetime import datetime, timedelta, timezone
from typing import Any

from hypothesis import strategies as st

from frequenz.channels import Broadcast
from frequenz.client.microgrid import ComponentMetricId
from frequenz.quantities import Quantity
from frequenz.sdk._internal._channels import ChannelRegistry
from frequenz.sdk.microgrid._data_sourcing import ComponentMetricRequest
from frequenz.sdk.microgrid._resampling import ComponentMetricsResamplingActor
from frequenz.sdk.timeseries import MovingWindow, Sample
from frequenz.sdk.timeseries._resampling import Resampler, ResamplerConfig

from .. import world
from ..core import Verdict

IDS = ("C07",)
BUDGET = {"quick": 4000, "thorough": 15000}
SIZE_BOUNDS = {
    "quick": "periods 0.2/1/1.5/7/60 s, 1-4 series, horizon 8-25 periods, sink latencies up to 2.5 periods, first call up to 3.7 periods late",
    "thorough": "same configuration space, horizon 8-80 periods",
}
RULE = {
    "C07": (
        "Hypothesis-generated scripts: period from {0.2,1,1.5,7,60 s}; align_to None / past grid point / past point off the "
        "period grid / past point with a sub-millisecond phase / future instant / epoch; creation instant = grid point + {0, 1 us, period/2, period - 1 us} + whole "
        "periods; 1-4 series, each added before the start or at a generated virtual time while running; per-tick sink latency "
        "from {0, 0.3, 1, 2.5 periods} on the slow sinks; each series is silent or receives a sample every 0.5 / 1 / 2 / 3 periods "
        "(initial buffer length 1-16, so the input-period estimate and the up-sampling paths are reached); the first resample() awaited {0, 0.5, 3.7} periods late; the driver "
        "restarts resample() on any exception, as the resampling actor does; a quarter of the cases run the same script "
        "through a real ComponentMetricsResamplingActor (series = subscription requests, sinks = registry channels), and some through a MovingWindow with its own resampler "
        "(continuous raw input; the stored slots must be aligned, start within two periods and be gap-free). Oracle on the samples handed to every sink: "
        "timestamps are t1 + k*period for consecutive k (exact datetimes), aligned to align_to, creation < t1 <= creation + 2 "
        "periods, series resampled together get identical timestamps, a series added at time a joins from the first tick "
        "whose resampling began after a and is gap-free from there. Non-trivial = creation off the grid, or a latency >= 1 "
        "period, or a series added while running; distinct by SHA-1 of the canonical JSON case."
    )
}
ASSUMPTIONS = [
    "virtual time: asyncio timers, the frequenz-channels Timer and datetime.now() share one clock owned by the harness",
    "resample() raising while a series is added during a slow gather is tolerated; the driver restarts it (actor behaviour)",
]
MIN_LABELS = {"C07": {"creation_off_grid": 0.4, "latency_ge_period": 0.3, "series_added_while_running": 0.3, "late_first_call": 0.25, "through_resampling_actor": 0.1, "through_moving_window": 0.05, "upsampled_series": 0.1}}

US = timedelta(microseconds=1)
EPOCH = datetime(1970, 1, 1, tzinfo=timezone.utc)


def strategy(tier: str, pid: str = "C07") -> st.SearchStrategy[Any]:
    del pid
    horizon = st.integers(8, 25 if tier == "quick" else 80)
    series = st.lists(
        st.fixed_dictionaries({
            "slow": st.booleans(),
            "add_at": st.one_of(st.none(), st.none(), st.sampled_from([0.0, 0.5, 1.0, 2.3, 4.0, 6.6]),
                                st.floats(0.0, 7.0).map(lambda x: round(x, 3))),
        }), min_size=1, max_size=4)
    return st.fixed_dictionaries({
        "period_ms": st.sampled_from([200, 1000, 1500, 7000, 60000]),
        "align": st.sampled_from(["none", "past", "past_off", "future", "epoch", "past_us", "past_us2"]),
        "phase": st.sampled_from(["zero", "us", "half", "almost"]),
        "extra_periods": st.integers(1, 5),
        "series": series,
        "latency": st.lists(st.sampled_from([0.0, 0.0, 0.0, 0.3, 1.0, 2.5]), min_size=8, max_size=8),
        "init_delay": st.sampled_from([0.0, 0.0, 0.5, 3.7]),
        "horizon": horizon,
        "driver": st.sampled_from(["direct", "direct", "direct", "actor", "window"]),
        # input data per series: None = silent source, else a sample every m periods (m > 1: up-sampling)
        "data": st.lists(st.sampled_from([None, None, 0.5, 1.0, 2.0, 3.0]), min_size=4, max_size=4),
        "buffer_len": st.sampled_from([1, 2, 4, 16]),
    })


def run_case(case: Any, pid: str) -> Verdict:
    del pid
    v = Verdict()
    period = timedelta(milliseconds=case["period_ms"])
    psec = period.total_seconds()
    align: datetime | None = {
        "none": None,
        "past": world.T0 - timedelta(days=3),
        "past_off": world.T0 - timedelta(days=3) + period * 0.37,
        "future": world.T0 + timedelta(hours=5) + period * 0.11,
        "epoch": EPOCH,
        # grids with a sub-millisecond phase (every tick then has a microsecond part that is not a whole ms)
        "past_us": world.T0 - timedelta(days=3) + timedelta(microseconds=250_007),
        "past_us2": world.T0 - timedelta(days=1) + timedelta(microseconds=512_345),
    }[case["align"]]
    phase = {"zero": timedelta(0), "us": US, "half": period / 2, "almost": period - US}[case["phase"]]
    base = align if align is not None else world.T0
    k = ((world.T0 - base) // period) + case["extra_periods"]
    creation = base + k * period + phase
    series = case["series"]
    if all(s["add_at"] is not None for s in series):
        series = [dict(series[0], add_at=None)] + series[1:]
    outs: dict[int, list[tuple[datetime, float]]] = {i: [] for i in range(len(series))}
    added_at: dict[int, float] = {}
    excs: list[str] = []
    info: dict[str, Any] = {}

    async def scenario() -> None:
        loop = asyncio.get_running_loop()
        await asyncio.sleep((creation - world.T0).total_seconds())
        if world.now() != creation:
            raise AssertionError(f"harness clock {world.now()} != creation {creation}")
        t_create = loop.time()
        info["t_create"] = t_create
        resampler = Resampler(ResamplerConfig(resampling_period=period, align_to=align,
                                               initial_buffer_len=case.get("buffer_len", 16)))
        chans = []
        feeders: list[asyncio.Task[None]] = []

        async def feed(ch: Any, every: float) -> None:
            tx = ch.new_sender()
            n = 0
            while True:
                n += 1
                await tx.send(Sample(world.now(), Quantity(float(n))))
                await asyncio.sleep(every * psec)

        def add(i: int) -> None:
            slow = series[i]["slow"]

            async def sink(sample: Sample[Quantity]) -> None:
                outs[i].append((sample.timestamp, loop.time()))
                if slow:
                    lat = case["latency"][len(outs[i]) % len(case["latency"])]
                    if lat:
                        await asyncio.sleep(lat * psec)

            ch: Any = Broadcast(name=f"s{i}")
            chans.append(ch)
            resampler.add_timeseries(f"s{i}", ch.new_receiver(limit=10000), sink)
            added_at[i] = loop.time()
            every = case.get("data", [None] * 4)[i % 4]
            if every is not None:
                feeders.append(asyncio.create_task(feed(ch, every)))
                info["fed"] = True
                if every > 1:
                    info["upsampling"] = True

        for i, s in enumerate(series):
            if s["add_at"] is None:
                add(i)

        async def driver() -> None:
            await asyncio.sleep(case["init_delay"] * psec)
            while True:
                try:
                    await resampler.resample()
                except asyncio.CancelledError:
                    raise
                except Exception as exc:  # pylint: disable=broad-except
                    excs.append(type(exc).__name__)
                    await asyncio.sleep(0)

        task = asyncio.create_task(driver())
        later = sorted((s["add_at"], i) for i, s in enumerate(series) if s["add_at"] is not None)
        for at, i in later:
            target = t_create + at * psec
            if target > loop.time():
                await asyncio.sleep(target - loop.time())
            add(i)
        # stop off the tick grid: the frequenz-channels Timer (a dependency, taken as given) swallows a
        # cancellation that arrives at the very instant its internal sleep completes
        end = t_create + (case["horizon"] + 0.37) * psec
        if end > loop.time():
            await asyncio.sleep(end - loop.time())
        task.cancel()
        for feeder in feeders:
            feeder.cancel()
        try:
            await task
        except asyncio.CancelledError:
            pass
        await resampler.stop()

    async def actor_scenario() -> None:
        """Same script through the ComponentMetricsResamplingActor: series are subscription requests."""
        loop = asyncio.get_running_loop()
        await asyncio.sleep((creation - world.T0).total_seconds())
        t_create = loop.time()
        registry = ChannelRegistry(name="c07")
        ds_requests: Any = Broadcast(name="ds-requests")
        keep = ds_requests.new_receiver(limit=10000)
        rs_requests: Any = Broadcast(name="rs-requests")
        actor = ComponentMetricsResamplingActor(
            channel_registry=registry, data_sourcing_request_sender=ds_requests.new_sender(),
            resampling_request_receiver=rs_requests.new_receiver(limit=10000),
            config=ResamplerConfig(resampling_period=period, align_to=align))
        actor.start()
        req_tx = rs_requests.new_sender()
        collectors = []

        async def add(i: int) -> None:
            req = ComponentMetricRequest("ns", 100 + i, ComponentMetricId.ACTIVE_POWER, None)
            rx = registry.get_or_create(Sample[Quantity], req.get_channel_name()).new_receiver(limit=100000)

            async def collect() -> None:
                async for sample in rx:
                    outs[i].append((sample.timestamp, loop.time()))

            collectors.append(asyncio.create_task(collect()))
            added_at[i] = loop.time()
            await req_tx.send(req)

        for i, spec in enumerate(series):
            if spec["add_at"] is None:
                await add(i)
        for at, i in sorted((spec["add_at"], i) for i, spec in enumerate(series) if spec["add_at"] is not None):
            target = t_create + at * psec
            if target > loop.time():
                await asyncio.sleep(target - loop.time())
            await add(i)
        end = t_create + (case["horizon"] + 0.37) * psec
        if end > loop.time():
            await asyncio.sleep(end - loop.time())
        await world.settle()
        for task in collectors:
            task.cancel()
        await actor.stop()
        del keep

    async def window_scenario() -> None:
        """MovingWindow with its own resampler: the stored slots are the resampled timeline."""
        loop = asyncio.get_running_loop()
        await asyncio.sleep((creation - world.T0).total_seconds())
        t_create = loop.time()
        chan: Any = Broadcast(name="c07-raw")
        horizon = case["horizon"]
        # the window's ring buffer and its resampler must share one grid: align_to None is replaced by the epoch
        walign = align if align is not None else EPOCH
        window = MovingWindow(size=period * (horizon + 4), resampled_data_recv=chan.new_receiver(limit=100000),
                              input_sampling_period=period / 2,
                              resampler_config=ResamplerConfig(resampling_period=period, align_to=walign),
                              align_to=walign)
        window.start()
        sender = chan.new_sender()
        n = 0
        end = t_create + (horizon + 0.37) * psec
        # raw samples every half period (so every resampling window has data); late start as generated
        await asyncio.sleep(case["init_delay"] * psec * 0.1)
        while loop.time() < end:
            n += 1
            await sender.send(Sample(world.now(), Quantity(float(n))))
            await asyncio.sleep(psec / 2)
        await world.settle()
        oldest, newest = window.oldest_timestamp, window.newest_timestamp
        info["window"] = (oldest, newest, window.count_valid(), window.count_covered())
        await window.stop()

    driver = case.get("driver", "direct")
    if driver == "actor":
        v.labels.add("through_resampling_actor")
        world.run(actor_scenario)
    elif driver == "window":
        v.labels.add("through_moving_window")
        world.run(window_scenario)
        oldest, newest, n_valid, n_covered = info["window"]
        if oldest is None or newest is None:
            v.fail(f"MovingWindow with a resampler stored nothing in {case['horizon']} periods of continuous input")
            return v
        walign = align if align is not None else EPOCH
        if (oldest - walign) % period or (newest - walign) % period:
            v.fail(f"MovingWindow slots {oldest} .. {newest} are not on align_to + k*period (align_to {walign}, period {period})")
        if not creation < oldest <= creation + 2 * period:
            v.fail(f"first resampled slot {oldest} not in (creation, creation + 2 periods], creation {creation}")
        expect_slots = (newest - oldest) // period + 1
        if n_valid != expect_slots or n_covered != expect_slots:
            v.fail(f"MovingWindow covers {oldest} .. {newest} = {expect_slots} periods but holds {n_valid} valid / "
                   f"{n_covered} covered slots (a tick was skipped or duplicated)")
        last_tick = creation + ((world.T0 + timedelta(seconds=0) - world.T0) + (case["horizon"] + 0.37) * period)
        if newest < last_tick - 2 * period:
            v.fail(f"newest slot {newest} lags more than two periods behind the end of the run {last_tick}")
        v.labels.add("align_" + case["align"])
        if case["phase"] != "zero":
            v.labels.add("creation_off_grid")
        v.nontrivial = case["phase"] != "zero"
        return v
    else:
        world.run(scenario)

    # reference timeline: the union of everything any sink saw, keyed by emission time
    ref = next(i for i, s in enumerate(series) if s["add_at"] is None)
    emission: dict[datetime, float] = {}
    for i, out in outs.items():
        for ts, t_e in out:
            emission.setdefault(ts, t_e)
    for i, out in outs.items():
        name = f"series {i} (added {'before start' if series[i]['add_at'] is None else 'at +' + str(series[i]['add_at']) + ' periods'})"
        stamps = [ts for ts, _ in out]
        if not stamps:
            if series[i]["add_at"] is None:
                v.fail(f"{name}: received nothing in {case['horizon']} periods")
            continue
        for a, b in zip(stamps, stamps[1:]):
            if b - a != period:
                v.fail(f"{name}: consecutive samples stamped {a} and {b} are not one period ({period}) apart")
                break
        if align is not None and (stamps[0] - align) % period:
            v.fail(f"{name}: first timestamp {stamps[0]} is not align_to + k*period (align_to {align}, period {period})")
        if series[i]["add_at"] is None:
            if not creation < stamps[0] <= creation + 2 * period:
                v.fail(f"{name}: first timestamp {stamps[0]} not in (creation, creation + 2 periods], creation {creation}")
            if align is None and stamps[0] != creation + period:
                v.fail(f"{name}: align_to None but first timestamp {stamps[0]} != creation + period")
        # shared timeline: every tick whose resampling began after this series was added must be present
        a_time = added_at[i]
        for ts, t_e in sorted(emission.items()):
            if t_e > a_time and ts not in set(stamps) and ts <= max(emission):
                # the very last tick may still be in flight for this sink when the case ends
                if ts == max(emission):
                    continue
                v.fail(f"{name}: tick {ts} was resampled at t={t_e} after the series was added (t={a_time}) "
                       f"but the series did not receive it")
                break
            if t_e < a_time and ts in set(stamps):
                v.fail(f"{name}: received tick {ts} resampled at t={t_e}, before it was added (t={a_time})")
                break
    all_stamps = sorted(emission)
    for a, b in zip(all_stamps, all_stamps[1:]):
        if b - a != period:
            v.fail(f"the timeline seen by all sinks jumps from {a} to {b}")
            break
    del ref
    if case["phase"] != "zero" and align is not None:
        v.labels.add("creation_off_grid")
    direct = case.get("driver") != "actor"
    slow_used = direct and any(s["slow"] for s in series) and any(x >= 1.0 for x in case["latency"])
    if slow_used:
        v.labels.add("latency_ge_period")
    if any(s["add_at"] is not None for s in series):
        v.labels.add("series_added_while_running")
    if case["init_delay"] and direct:
        v.labels.add("late_first_call")
    if excs:
        v.labels.add("resample_raised_and_was_restarted")
    if info.get("fed"):
        v.labels.add("series_with_input_data")
    if info.get("upsampling"):
        v.labels.add("upsampled_series")
    v.labels.add("align_" + case["align"])
    v.nontrivial = bool(v.labels & {"creation_off_grid", "latency_ge_period", "series_added_while_running"})
    return v


def describe(case: Any) -> Any:
    return case
