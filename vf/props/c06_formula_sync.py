"""C06 — every formula sample is computed from inputs of a single timestamp.

The harness owns the delivery schedule: per-stream first tick, interleaving of sends and
quiescence barriers, and the moment the consumer starts reading.  Stream i carries
(k+1) * 1000**i at tick k, so an output value identifies the tick each stream contributed.
"""

from __future__ import annotations

import asyncio
from datetime import datetime, timedelta, timezone
from zoneinfo import ZoneInfo
from typing import Any

from hypothesis import strategies as st

from frequenz.channels import Broadcast
from frequenz.client.microgrid import ComponentMetricId
from frequenz.quantities import Quantity
from frequenz.sdk._internal._channels import ChannelRegistry
from frequenz.sdk.microgrid._data_sourcing import ComponentMetricRequest
from frequenz.sdk.timeseries import Sample
from frequenz.sdk.timeseries.formula_engine._formula_engine import FormulaBuilder, FormulaEngine3Phase
from frequenz.sdk.timeseries.formula_engine._resampled_formula_builder import ResampledFormulaBuilder

from .. import world
from ..core import Verdict

IDS = ("C06",)
BUDGET = {"quick": 1500, "thorough": 8000}
SIZE_BOUNDS = {
    "quick": "2-5 streams, first ticks 0-4, <= 60 schedule operations, <= 49 samples per stream (receiver capacity 50)",
    "thorough": "2-5 streams, first ticks 0-6, <= 200 schedule operations (input capacity 256 on the builder route)",
}
RULE = {
    "C06": (
        "Hypothesis-generated delivery schedules: per stream a first tick, then a list of operations send(i) / settle / start "
        "(consumer creates the output receiver) / late (a second consumer) that preserves per-stream order and never exceeds "
        "the input receivers' capacity; formulas: sum of all streams via FormulaBuilder, via a formula string, a nested "
        "composition (a+b)-c whose inner sum is its own engine, and a three-phase engine over three per-phase engines. Stream i "
        "carries (k+1)*1000^i at tick k. Oracle: every output stamped T_k equals the formula evaluated on tick k of every "
        "stream; output timestamps are consecutive from max_i(first tick) up to the last tick delivered on all streams, none "
        "skipped, repeated or reordered; a late consumer sees a gap-free suffix. Non-trivial = first ticks differ and some "
        "stream is >= 2 samples ahead of another when the engine first runs; distinct by SHA-1 of the canonical JSON case."
    )
}
ASSUMPTIONS = [
    "input streams are individually ordered and gap-free (the resampler's guarantee, C07)",
    "no input receiver overflows (the schedule interpreter skips a send that would exceed the capacity)",
]
MIN_LABELS = {"C06": {"first_ticks_differ": 0.5, "lead_ge_2_at_start": 0.2, "three_phase": 0.1, "nested": 0.1,
                      "consumer_starts_mid_stream": 0.3}}


@st.composite
def _case(draw: Any, max_ops: int, max_first: int) -> dict[str, Any]:
    route = draw(st.sampled_from(["builder", "builder", "string", "nested", "3phase"]))
    if route == "nested":
        n = 3
    elif route == "3phase":
        n = draw(st.sampled_from([3, 3, 4, 5]))
    else:
        n = draw(st.integers(2, 5))
    first = [draw(st.integers(0, max_first)) if draw(st.booleans()) else 0 for _ in range(n)]
    if route == "3phase" and draw(st.integers(0, 5)) == 0:
        # one phase lags the others by more than the capacity (50) of the per-phase output receivers inside the
        # three-phase engine; every *input* backlog stays at one sample (round-robin sends with a barrier per round)
        lagging = draw(st.integers(0, 2))
        lag = draw(st.integers(45, 60))
        tail = draw(st.integers(2, 8))
        lead = [i for i in range(n) if i % 3 != lagging]
        late = [i for i in range(n) if i % 3 == lagging]
        script: list[Any] = []
        for _ in range(draw(st.integers(0, 4))):   # rounds in which all phases are in step and samples are emitted
            script += [["send", i] for i in range(n)] + [["settle"]]
        for _ in range(lag):
            script += [["send", i] for i in lead] + [["settle"]]
        for _ in range(lag + tail):
            script += [["send", i] for i in late] + [["settle"]]
        for _ in range(tail):
            script += [["send", i] for i in lead] + [["settle"]]
        script.insert(draw(st.sampled_from([0, 0, len(script) // 3, len(script)])), ["start"])
        return {"route": route, "n": n, "first": first, "ops": script, "long_lag": lag}
    if route != "3phase" and n >= 3 and draw(st.integers(0, 7)) == 0:
        # streams that began long before each other, everything buffered (within the receivers' capacity of 50) before
        # the consumer attaches: the first synchronisation has to skip tens of samples on several streams
        starts = [0, 5, 10, 20, 30, 40, 45]
        first = [draw(st.sampled_from(starts)) for _ in range(n)]
        last = 46
        script = []
        for k in range(last + 1):
            script += [["send", i] for i in range(n) if first[i] <= k]
        script.append(["start"])
        for _ in range(draw(st.integers(1, 3))):
            script += [["send", i] for i in range(n)] + [["settle"]]
        return {"route": route, "n": n, "first": first, "ops": script, "deep_backlog": True}
    ops: list[Any] = []
    for _ in range(draw(st.integers(5, max_ops))):
        kind = draw(st.sampled_from(["send"] * 8 + ["settle"] * 3 + ["late"]))
        ops.append([kind, draw(st.integers(0, n - 1))] if kind == "send" else [kind])
    # the consumer starts before any send, somewhere in the middle, or after everything was sent
    pos = draw(st.sampled_from([0, 0, len(ops) // 4, len(ops) // 2, len(ops) // 2, (3 * len(ops)) // 4, len(ops)]))
    ops.insert(pos, ["start"])
    # a fifth of the generic cases: some streams stamp their samples in a daylight-saving zone and the run crosses the switch
    zones = [draw(st.booleans()) for _ in range(n)] if draw(st.integers(0, 4)) == 0 else None
    # string route (resampled receivers): a third of the cases have missing samples, counted as zero
    none_mask = draw(st.lists(st.booleans(), min_size=11, max_size=11)) if route == "string" and draw(st.integers(0, 2)) == 0 else None
    return {"route": route, "n": n, "first": first, "ops": ops, "dst_streams": zones, "none_mask": none_mask}


def strategy(tier: str, pid: str = "C06") -> st.SearchStrategy[Any]:
    del pid
    return _case(60, 4) if tier == "quick" else _case(200, 6)


def _val(i: int, k: int) -> float:
    return float((k + 1) * 1000 ** i)


def run_case(case: Any, pid: str) -> Verdict:
    del pid
    v = Verdict()
    route, n, first = case["route"], case["n"], case["first"]
    v.labels.add(route if route in ("nested",) else ("three_phase" if route == "3phase" else "route_" + route))
    cap = 256 if route == "builder" else 50
    state: dict[str, Any] = {"lead_at_start": 0, "started_at": None}
    dst_streams = case.get("dst_streams")
    # with daylight-saving streams the timestamps start 3 s before the switch of 2024-03-31 01:00 UTC
    base = datetime(2024, 3, 31, 0, 59, 57, tzinfo=timezone.utc) if dst_streams and any(dst_streams) else world.T0
    zone_of: list[Any] = [ZoneInfo("Europe/Berlin") if dst_streams and dst_streams[i] else timezone.utc for i in range(n)]
    if base != world.T0:
        v.labels.add("streams_stamped_in_a_zone_across_a_dst_switch")
    outputs: dict[str, list[Any]] = {"main": [], "late": []}
    sent = [0] * n

    # phases of the 3-phase route: stream i belongs to phase i % 3
    none_mask = case.get("none_mask") if route == "string" else None

    def missing(i: int, k: int) -> bool:
        return bool(none_mask) and none_mask[(i * 7 + k * 3) % len(none_mask)]

    if none_mask:
        v.labels.add("missing_samples_counted_as_zero")

    def expected(k: int) -> Any:
        if none_mask:
            return sum(_val(i, k) for i in range(n) if not missing(i, k))
        if route == "3phase":
            return tuple(sum(_val(i, k) for i in range(n) if i % 3 == ph) for ph in range(3))
        if route == "nested":
            return _val(0, k) + _val(1, k) - _val(2, k)
        return sum(_val(i, k) for i in range(n))

    async def scenario() -> None:
        senders: list[Any] = []
        keep: list[Any] = []
        if route == "string":
            registry = ChannelRegistry(name="c06")
            sub: Any = Broadcast(name="c06-sub")
            keep.append(sub.new_receiver(limit=1000))
            b = ResampledFormulaBuilder("ns", "f", registry, sub.new_sender(), ComponentMetricId.ACTIVE_POWER, Quantity)
            engine: Any = b.from_string(" + ".join(f"#{i + 1}" for i in range(n)), nones_are_zeros=bool(none_mask))
            for i in range(n):
                name = ComponentMetricRequest("ns", i + 1, ComponentMetricId.ACTIVE_POWER, None).get_channel_name()
                senders.append(registry.get_or_create(Sample[Quantity], name).new_sender())
        else:
            chans: list[Any] = [Broadcast(name=f"in{i}") for i in range(n)]
            senders = [c.new_sender() for c in chans]
            keep.append(chans)
            if route == "builder":
                fb: Any = FormulaBuilder("f", Quantity)
                for i in range(n):
                    if i:
                        fb.push_oper("+")
                    fb.push_metric(f"in{i}", chans[i].new_receiver(limit=cap), nones_are_zeros=False)
                engine = fb.build()
            elif route == "nested":
                leaves = []
                for i in range(n):
                    lb: Any = FormulaBuilder(f"leaf{i}", Quantity)
                    lb.push_metric(f"in{i}", chans[i].new_receiver(limit=cap), nones_are_zeros=False)
                    leaves.append(lb.build())
                inner = (leaves[0] + leaves[1]).build("ab")
                engine = (inner - leaves[2]).build("top")
                keep += [leaves, inner]
            else:
                phases = []
                for ph in range(3):
                    pb: Any = FormulaBuilder(f"phase{ph}", Quantity)
                    mine = [i for i in range(n) if i % 3 == ph]
                    for j, i in enumerate(mine):
                        if j:
                            pb.push_oper("+")
                        pb.push_metric(f"in{i}", chans[i].new_receiver(limit=cap), nones_are_zeros=False)
                    phases.append(pb.build())
                engine = FormulaEngine3Phase("f3", Quantity, (phases[0], phases[1], phases[2]))
                keep.append(phases)
        rx: dict[str, Any] = {}

        def start(which: str) -> None:
            if which not in rx:
                rx[which] = engine.new_receiver(max_size=10000)
                if which == "main":
                    state["lead_at_start"] = max(sent) - min(sent)
                    state["started_at"] = sum(sent)

        for op in case["ops"]:
            if op[0] == "send":
                i = op[1]
                if sent[i] >= (cap - 1 if not case.get("long_lag") else 200):
                    continue
                k = first[i] + sent[i]
                await senders[i].send(Sample((base + timedelta(seconds=k)).astimezone(zone_of[i]),
                                             None if missing(i, k) else Quantity(_val(i, k))))
                sent[i] += 1
            elif op[0] == "settle":
                await world.settle()
            elif op[0] == "start":
                start("main")
            elif op[0] == "late" and "main" in rx:
                start("late")
        start("main")
        await world.settle(5)
        for which, r in rx.items():
            while True:
                try:
                    outputs[which].append(await asyncio.wait_for(r.receive(), timeout=0.001))
                except asyncio.TimeoutError:
                    break

    world.run(scenario)

    def tick_of(sample: Any) -> float:
        return (sample.timestamp - base).total_seconds()

    def value_of(sample: Any) -> Any:
        if route == "3phase":
            return tuple(None if x is None else x.base_value for x in (sample.value_p1, sample.value_p2, sample.value_p3))
        return None if sample.value is None else sample.value.base_value

    lo = max(first)
    hi = min(first[i] + sent[i] - 1 for i in range(n))  # last tick delivered on all streams
    for which, outs in outputs.items():
        ticks = []
        for s in outs:
            k = tick_of(s)
            if k != int(k) or k < 0:
                v.fail(f"{which}: output stamped {s.timestamp}, not an input timestamp")
                continue
            k = int(k)
            ticks.append(k)
            if value_of(s) != expected(k):
                v.fail(f"{which}: output stamped tick {k} has value {value_of(s)}, inputs of tick {k} give {expected(k)} "
                       f"(stream i carries (k+1)*1000^i; first ticks {first})")
        if case.get("long_lag"):
            # beyond the capacity of the engine's internal per-phase receivers samples are dropped there: only
            # "computed from inputs of its own timestamp" and "not repeated or reordered" are judged
            if any(b <= a for a, b in zip(ticks, ticks[1:])):
                v.fail(f"{which}: output ticks {ticks} are repeated or reordered")
            continue
        if ticks and ticks != list(range(ticks[0], ticks[0] + len(ticks))):
            v.fail(f"{which}: output ticks {ticks} are not consecutive")
        if which == "main":
            want = list(range(lo, hi + 1)) if hi >= lo else []
            if not v.violations and ticks != want:
                v.fail(f"main consumer received ticks {ticks}, expected {want} (first ticks {first}, samples sent {sent})")
        elif ticks and hi >= lo and not v.violations:
            if ticks[-1] != hi:
                v.fail(f"late consumer's last tick {ticks[-1]} != last complete tick {hi}")
    if case.get("deep_backlog"):
        v.labels.add("consumer_attaches_to_deep_staggered_backlogs")
        if sum(sorted(max(first) - f for f in set(first))) > 50:
            v.labels.add("lags_of_lagging_groups_sum_over_50")
    if case.get("long_lag"):
        v.labels.add("three_phase_one_phase_lags_45_to_60_ticks")
        if case["long_lag"] > 51:
            v.labels.add("three_phase_lag_beyond_internal_capacity")
    if len(set(first)) > 1:
        v.labels.add("first_ticks_differ")
    if state["lead_at_start"] >= 2:
        v.labels.add("lead_ge_2_at_start")
    if state["started_at"]:
        v.labels.add("consumer_starts_mid_stream")
    if outputs["late"]:
        v.labels.add("late_consumer_received")
    if hi >= lo:
        v.labels.add("has_output")
    v.nontrivial = len(set(first)) > 1 and state["lead_at_start"] >= 2 and hi >= lo
    if route == "3phase":
        phase_first = [max([first[i] for i in range(n) if i % 3 == ph]) for ph in range(3)]
        if len(set(phase_first)) > 1:
            v.classes.add("three-phase-unaligned-start")
    return v


def describe(case: Any) -> Any:
    return case
