"""C05 / C13 — formula engine arithmetic and missing-value propagation.

Expression trees are turned into real engines by three routes: (a) formula strings
through ResampledFormulaBuilder.from_string, (b) the Python operator/method API of
FormulaEngine / HigherOrderFormulaBuilder over leaf engines, (c) FormulaBuilder tokens
with per-stream nones_are_zeros.  Samples are fed in lock-step on the virtual loop and the
outputs compared with an exact rational (C05) / three-valued (C13) reference evaluator.
"""

from __future__ import annotations

import asyncio
import math
import re
from datetime import timedelta
from fractions import Fraction as Fr
from typing import Any

from hypothesis import strategies as st

from frequenz.channels import Broadcast
from frequenz.client.microgrid import ComponentMetricId
from frequenz.quantities import Quantity
from frequenz.sdk._internal._channels import ChannelRegistry
from frequenz.sdk.microgrid._data_sourcing import ComponentMetricRequest
from frequenz.sdk.timeseries import Sample
from frequenz.sdk.timeseries.formula_engine._formula_engine import FormulaBuilder, FormulaEngine3Phase
from frequenz.sdk.timeseries.formula_engine._resampled_formula_builder import ResampledFormulaBuilder

from .. import world
from ..core import Verdict

IDS = ("C05", "C13")
BUDGET = {"quick": {"C05": 2500, "C13": 2500}, "thorough": {"C05": 8000, "C13": 8000}}
SIZE_BOUNDS = {
    "quick": "expression depth <= 4, <= 6 streams, 3-6 timestamps per program",
    "thorough": "expression depth <= 6, <= 6 streams, 3-6 timestamps per program",
}
_GEN = (
    "Hypothesis-generated expression trees over input streams (repeats allowed), constants, + - * / and (API/builder routes) "
    "min max consumption production, realised by three routes: formula strings with minimal or redundant parentheses and random "
    "whitespace (from_string), the Python operator/method API over leaf FormulaEngines (each intermediate builder used once), and "
    "FormulaBuilder tokens with per-stream nones_are_zeros (incl. push_clipper), plus the composition API over three-phase "
    "engines (each phase carries value + phase index, checked per phase); 3-6 timestamps delivered in lock-step on a virtual-time loop. "
)
RULE = {
    "C05": _GEN + "Values: small integers, zeros, negatives and floats |v| <= 1e6, all finite. Oracle: exact Fraction evaluation "
    "with conventional precedence and left associativity; accept |out - exact| <= 1e-9 * max(1, magnitude bound); timestamps "
    "with an ill-conditioned or zero denominator are excluded and counted. Non-trivial = a parent/child pair of arithmetic "
    "operators (precedence or associativity decides) or an API/builder tree of depth >= 3 with min/max/consumption/production; "
    "distinct by SHA-1 of the canonical JSON case.",
    "C13": _GEN + "Per timestamp a subset of streams is missing (None / NaN / +inf / -inf), small-integer values make denominators "
    "exactly zero; nones_are_zeros global (string, API) or per stream (builder). Oracle: three-valued reference (missing on a "
    "propagate stream or x/0 is undefined and propagates through every operator incl. min/max in either position); exactly one "
    "output per input timestamp, None iff undefined, else the C05 value. Non-trivial = a missing operand in second position of "
    "min/max, or a zero denominator, or a mix of zero-on-missing and propagate streams with something missing; distinct by "
    "SHA-1 of the canonical JSON case.",
}
ASSUMPTIONS = [
    "all streams are delivered in lock-step (delivery schedules are C06's subject)",
    "expression *trees*: an intermediate HigherOrderFormulaBuilder is consumed exactly once (its operators mutate it in place)",
    "scalar constants are floats (an int constant fails an assert in HigherOrderFormulaBuilder.build)",
    "a denominator that is exactly zero only because of rational cancellation through another division is excluded",
]
MIN_LABELS = {
    "C05": {"route_string": 0.2, "route_api": 0.2, "route_builder": 0.1, "precedence_interaction": 0.25},
    "C13": {"route_string": 0.2, "route_api": 0.2, "route_builder": 0.1, "missing_second_of_minmax": 0.02,
            "zero_denominator": 0.1, "mixed_zero_and_propagate": 0.02},
}

ARITH = ["+", "-", "*", "/"]
PREC = {"+": 1, "-": 1, "*": 2, "/": 2}
NSTREAMS = 6


# --------------------------------------------------------------------------- generation


def _tree(depth: int, rich: bool, clip: bool = False) -> st.SearchStrategy[Any]:
    """rich=True allows constants (right operands only) and min/max/consumption/production; clip adds push_clipper."""
    leaf = st.tuples(st.just("s"), st.integers(0, NSTREAMS - 1)).map(list)
    if depth <= 0:
        return leaf
    sub = st.deferred(lambda: _tree(depth - 1, rich, clip))
    binary = st.tuples(st.sampled_from(ARITH), sub, sub).map(list)
    # X op1 (Y opx Z) op2 W: a group between two operators of a left-associative chain (with "random" parentheses the
    # group's own operands nest further)
    chain = st.tuples(st.sampled_from(ARITH), st.sampled_from(ARITH), st.sampled_from(ARITH), sub, sub, sub, sub).map(
        lambda t: [t[1], [t[0], t[3], [t[2], t[4], t[5]]], t[6]])
    options = [leaf, binary, binary, binary, chain] + ([] if rich else [chain, chain])
    if rich:
        # method-style operators are weighted up: chains like x.max(b).production().max(c) need several of
        # them in a row
        unary = st.tuples(st.sampled_from(["cons", "prod"]), sub).map(list)
        minmax = st.tuples(st.sampled_from(["max", "min"]), sub, sub).map(list)
        options += [unary, unary, minmax, minmax, minmax]
        const_q = st.tuples(st.just("c"), st.sampled_from([0.0, 1.0, -2.0, 3.5, 10.0])).map(list)
        options.append(st.tuples(st.sampled_from(["+", "-", "*", "/", "max", "min"]), sub, const_q).map(list))
        options.append(st.tuples(st.sampled_from(["max", "min"]), sub, sub).map(list))
        options.append(st.tuples(st.sampled_from(["cons", "prod"]), sub).map(list))
        # the same binary method before and after a unary one on one builder: x.op(b).unary().op(c)
        options.append(st.tuples(st.sampled_from(["max", "min", "max", "min", "+", "-", "*", "/"]),
                                 st.sampled_from(["cons", "prod"]), sub, sub, sub).map(
            lambda t: [t[0], [t[1], [t[0], t[2], t[3]]], t[4]]))
    if clip:
        bound = st.one_of(st.none(), st.sampled_from([-2.0, 0.0, 1.0, 2.5]))
        options.append(st.tuples(st.just("clip"), sub, bound, bound).map(
            lambda t: ["clip", t[1], t[2], t[3]] if t[2] is None or t[3] is None or t[2] <= t[3] else ["clip", t[1], t[3], t[2]]))
    return st.one_of(options)


def _values(pid: str) -> st.SearchStrategy[Any]:
    if pid == "C05":
        return st.one_of(
            st.integers(-9, 9).map(float),
            st.integers(-9, 9).map(float),
            st.sampled_from([0.0, 1.0, -1.0, 0.5, 100.0, -1000.0, 1e6, -1e6]),
            st.floats(-1e6, 1e6).map(lambda x: round(x, 3)),
        )
    return st.one_of(
        st.integers(-3, 3).map(float),
        st.integers(-3, 3).map(float),
        st.integers(-3, 3).map(float),
        st.sampled_from(["none", "nan", "inf", "-inf"]),
        st.sampled_from([1e200, -1e200, 3.0, -3.0]),
    )


@st.composite
def _case(draw: Any, pid: str, max_depth: int) -> dict[str, Any]:
    route = draw(st.sampled_from(["string", "string", "api", "api", "builder", "builder", "api3"]))
    depth = draw(st.integers(1, max_depth))
    tree = draw(_tree(depth, rich=route != "string", clip=route == "builder").filter(lambda t: t[0] != "s"))
    if route == "api3" and _has_const(tree):
        route = "api"  # the 3-phase operators take engines and builders only, no constants
    rows = draw(st.lists(st.lists(_values(pid), min_size=NSTREAMS, max_size=NSTREAMS), min_size=3, max_size=6))
    return {
        "route": route,
        "tree": tree,
        "rows": rows,
        "style": draw(st.sampled_from(["minimal", "redundant", "random", "random"])),
        # style "random": a sub-expression is wrapped in (redundant) parentheses where its bit is set, so that groups
        # nest to any depth next to un-parenthesised operators
        "paren_bits": draw(st.lists(st.booleans(), min_size=7, max_size=7)),
        # str(engine) is called: never / before the engine starts / after the first timestamp / both
        "show": draw(st.sampled_from([0, 0, 1, 2, 3])),
        # string route only: build the engine through a FormulaEnginePool on which another formula was started first
        "pool": draw(st.integers(0, 1)) == 0,
        "ws": draw(st.lists(st.sampled_from(["", " ", "  ", "\t", "\n"]), min_size=4, max_size=4)),
        "zeros": draw(st.lists(st.booleans(), min_size=NSTREAMS, max_size=NSTREAMS)) if pid == "C13"
        else [False] * NSTREAMS,
        "global_zero": draw(st.booleans()) if pid == "C13" else False,
        # staggered start: stream i first delivers this many earlier samples (stamped before tick 0) whose
        # values are taken from the list; the engine has to skip them when it synchronises
        "early": draw(st.lists(st.lists(_values(pid), min_size=0, max_size=2), min_size=NSTREAMS, max_size=NSTREAMS))
        if draw(st.integers(0, 2)) == 0 else [[] for _ in range(NSTREAMS)],
    }


def strategy(tier: str, pid: str = "C05") -> st.SearchStrategy[Any]:
    return _case(pid, 4 if tier == "quick" else 6)


# --------------------------------------------------------------------------- reference


class _Amb(Exception):
    """The exact result is not association-independent in binary64 (excluded, counted)."""


PEAK = [Fr(0)]
"""Largest intermediate magnitude bound seen by the last reference evaluation."""


TINY = [Fr(1)]
"""Smallest non-zero magnitude of an exact intermediate value in the last reference evaluation."""


def _ref(node: Any, vals: list[Fr | None]) -> tuple[Fr | None, Fr, bool]:
    """(value or None=undefined, magnitude bound, subtree contains a division)."""
    val, mag, div = _ref_inner(node, vals)
    VALS[id(node)] = val
    if mag > PEAK[0]:
        PEAK[0] = mag
    if val is not None and val != 0 and abs(val) < TINY[0]:
        TINY[0] = abs(val)
    return val, mag, div


VALS: dict[int, Fr | None] = {}
"""Exact value of every node (by identity) in the last reference evaluation."""


def _assoc_bounds(node: Any) -> tuple[Fr, Fr]:
    """(upper, lower) bound on the magnitude of any non-zero partial result under ANY association.

    The engine gives '/' a higher precedence than '*' and '-' a higher one than '+', so `a*b/c` is computed as
    `a*(b/c)`: equal in exact arithmetic, but the intermediates differ.  Every partial product of a chain of
    factors f_i (numerators |x|, denominators 1/|x|) lies between prod(min(f_i, 1)) and prod(max(f_i, 1)).
    """
    op = node[0]
    own = VALS.get(id(node))
    own_abs = abs(own) if own is not None and own != 0 else None
    if op in ("s", "c"):
        return (own_abs or Fr(0)), (own_abs or Fr(1))
    if op in ("cons", "prod", "clip"):
        hi, lo = _assoc_bounds(node[1])
        return max(hi, own_abs or Fr(0)), min(lo, own_abs or Fr(1))
    (ha, la), (hb, lb) = _assoc_bounds(node[1]), _assoc_bounds(node[2])
    if op == "*":
        return max(ha, Fr(1)) * max(hb, Fr(1)), min(la, Fr(1)) * min(lb, Fr(1))
    if op == "/":
        b = VALS.get(id(node[2]))
        inv = Fr(1) / abs(b) if b is not None and b != 0 else Fr(1)
        return max(max(ha, Fr(1)) * max(inv, Fr(1)), hb), min(min(la, Fr(1)) * min(inv, Fr(1)), lb)
    if op in ("+", "-"):
        return ha + hb, min(la, lb, own_abs or Fr(1))
    return max(ha, hb), min(la, lb)


def _engine_association(node: Any) -> Any:
    """The tree as the engine associates an unparenthesised chain: a+b-c -> a+(b-c), a*b/c -> a*(b/c)."""
    if node[0] in ("s", "c"):
        return node
    if node[0] in ("cons", "prod"):
        return [node[0], _engine_association(node[1])]
    if node[0] == "clip":
        return ["clip", _engine_association(node[1]), node[2], node[3]]
    left, right = _engine_association(node[1]), _engine_association(node[2])
    if node[0] == "-" and left[0] == "+":
        return ["+", left[1], ["-", left[2], right]]
    if node[0] == "/" and left[0] == "*":
        return ["*", left[1], ["/", left[2], right]]
    return [node[0], left, right]


def _float_eval(node: Any, vals: list[float | None]) -> float:
    """Plain binary64 evaluation (conventional association); NaN for undefined."""
    op = node[0]
    if op == "s":
        x = vals[node[1]]
        return math.nan if x is None else x
    if op == "c":
        return float(node[1])
    if op == "cons":
        x = _float_eval(node[1], vals)
        return x if math.isnan(x) else max(x, 0.0)
    if op == "prod":
        x = _float_eval(node[1], vals)
        return x if math.isnan(x) else max(-x, 0.0)
    if op == "clip":
        x = _float_eval(node[1], vals)
        if math.isnan(x):
            return x
        if node[2] is not None:
            x = max(x, node[2])
        if node[3] is not None:
            x = min(x, node[3])
        return x
    a, b = _float_eval(node[1], vals), _float_eval(node[2], vals)
    if math.isnan(a) or math.isnan(b):
        return math.nan
    try:
        if op == "+":
            return a + b
        if op == "-":
            return a - b
        if op == "*":
            return a * b
        if op == "/":
            return a / b if b != 0 else math.nan
    except OverflowError:
        return math.inf
    return max(a, b) if op == "max" else min(a, b)


def _ref_inner(node: Any, vals: list[Fr | None]) -> tuple[Fr | None, Fr, bool]:
    op = node[0]
    if op == "s":
        val = vals[node[1]]
        return val, (abs(val) if val is not None else Fr(0)), False
    if op == "c":
        return Fr(node[1]), abs(Fr(node[1])), False
    if op in ("cons", "prod"):
        x, m, d = _ref(node[1], vals)
        if x is None:
            return None, m, d
        return (max(x, Fr(0)) if op == "cons" else max(-x, Fr(0))), m, d
    if op == "clip":
        x, m, d = _ref(node[1], vals)
        lo, hi = node[2], node[3]
        m = max(m, abs(Fr(lo)) if lo is not None else Fr(0), abs(Fr(hi)) if hi is not None else Fr(0))
        if x is None:
            return None, m, d
        if lo is not None:
            x = max(x, Fr(lo))
        if hi is not None:
            x = min(x, Fr(hi))
        return x, m, d
    a, ma, da = _ref(node[1], vals)
    b, mb, db = _ref(node[2], vals)
    hasdiv = da or db or op == "/"
    if op == "/":
        if b is not None and b == 0:
            if db:
                raise _Amb()
            if mb > Fr(2) ** 50:
                # an exact zero that only arises by cancelling operands beyond binary64's integer range: the float
                # denominator need not be zero (it depends on the association which small term is absorbed)
                raise _Amb()
            return None, ma, hasdiv
        if b is not None and abs(b) < Fr(1, 10**6) * mb:
            raise _Amb()
        if a is None or b is None:
            return None, ma, hasdiv
        return a / b, ma / abs(b), hasdiv
    if a is None or b is None:
        return None, ma + mb, hasdiv
    if op == "+":
        return a + b, ma + mb, hasdiv
    if op == "-":
        return a - b, ma + mb, hasdiv
    if op == "*":
        return a * b, ma * mb, hasdiv
    if op == "max":
        return max(a, b), max(ma, mb), hasdiv
    if op == "min":
        return min(a, b), max(ma, mb), hasdiv
    raise AssertionError(op)


# --------------------------------------------------------------------------- routes


def _to_string(node: Any, case: dict[str, Any], parent: str | None = None, right: bool = False, n: list[int] | None = None) -> str:
    n = n if n is not None else [0]
    ws = case["ws"]

    def w() -> str:
        n[0] += 1
        return ws[n[0] % len(ws)]

    if node[0] == "s":
        text = f"#{node[1] + 1}"
        if case["style"] == "redundant" and n[0] % 3 == 0:
            text = f"({w()}{text}{w()})"
        return text
    op = node[0]
    me = n[0]
    text = f"{_to_string(node[1], case, op, False, n)}{w()}{op}{w()}{_to_string(node[2], case, op, True, n)}"
    need = parent is not None and (PREC[op] < PREC[parent] or (PREC[op] == PREC[parent] and right))
    bits = case.get("paren_bits") or [False]
    if need or (case["style"] == "redundant" and n[0] % 2 == 0) or (case["style"] == "random" and bits[me % len(bits)]):
        text = f"({w()}{text}{w()})"
    return text


def _tokens(node: Any, parent: str | None = None, right: bool = False) -> list[tuple[str, Any]]:
    """Infix token stream for FormulaBuilder (min/max/unary operands always parenthesised)."""
    op = node[0]
    if op == "s":
        return [("m", node[1])]
    if op == "c":
        return [("c", node[1])]
    if op in ("cons", "prod"):
        return [("o", "(")] + [("o", "(")] + _tokens(node[1]) + [("o", ")"), ("o", "consumption" if op == "cons" else "production"), ("o", ")")]
    if op == "clip":
        return [("o", "("), ("o", "(")] + _tokens(node[1]) + [("o", ")"), ("clip", (node[2], node[3])), ("o", ")")]
    if op in ("max", "min"):
        return ([("o", "("), ("o", "(")] + _tokens(node[1]) + [("o", ")"), ("o", op), ("o", "(")] + _tokens(node[2])
                + [("o", ")"), ("o", ")")])
    inner = _tokens(node[1], op, False) + [("o", op)] + _tokens(node[2], op, True)
    need = parent in PREC and (PREC[op] < PREC[parent] or (PREC[op] == PREC[parent] and right))
    return [("o", "(")] + inner + [("o", ")")] if need else inner


class _Rig:
    """Engine under test plus the senders of its input streams."""

    def __init__(self) -> None:
        self.senders: dict[int, Any] = {}
        self.senders3: dict[int, list[Any]] = {}
        self.engine: Any = None
        self.keep: list[Any] = []


def _build_api3(case: dict[str, Any], rig: _Rig) -> None:
    """Composition API over 3-phase engines; stream i feeds three per-phase channels (value + phase index)."""
    leaves: dict[int, Any] = {}
    chans: dict[tuple[int, int], Any] = {}
    senders3: dict[int, list[Any]] = {}

    def leaf(i: int) -> Any:
        if i not in leaves:
            phases = []
            senders3[i] = []
            for ph in range(3):
                chans[(i, ph)] = Broadcast(name=f"in{i}p{ph}")
                senders3[i].append(chans[(i, ph)].new_sender())
                b: Any = FormulaBuilder(f"leaf{i}p{ph}", Quantity)
                b.push_metric(f"in{i}p{ph}", chans[(i, ph)].new_receiver(limit=100), nones_are_zeros=False)
                phases.append(b.build())
            leaves[i] = FormulaEngine3Phase(f"leaf{i}", Quantity, (phases[0], phases[1], phases[2]))
        return leaves[i]

    def fold(node: Any) -> Any:
        op = node[0]
        if op == "s":
            return leaf(node[1])
        if op == "cons":
            return fold(node[1]).consumption()
        if op == "prod":
            return fold(node[1]).production()
        left = fold(node[1])
        right = fold(node[2])
        if op == "+":
            return left + right
        if op == "-":
            return left - right
        if op == "*":
            return left * right
        if op == "/":
            return left / right
        if op == "max":
            return left.max(right)
        return left.min(right)

    root = fold(case["tree"])
    rig.keep += [leaves, chans]
    rig.senders3 = senders3
    rig.senders = {i: None for i in senders3}
    rig.engine = root.build("top3", nones_are_zeros=case["global_zero"])


def _children(node: Any) -> list[Any]:
    if node[0] in ("s", "c"):
        return []
    if node[0] == "clip":
        return [node[1]]
    return list(node[1:])


def _used(node: Any, out: set[int]) -> set[int]:
    if node[0] == "s":
        out.add(node[1])
    for child in _children(node):
        _used(child, out)
    return out


def _build_string(case: dict[str, Any], rig: _Rig) -> None:
    registry = ChannelRegistry(name="c05")
    sub: Any = Broadcast(name="c05-sub")
    rig.keep += [registry, sub, sub.new_receiver(limit=1000)]
    builder = ResampledFormulaBuilder("ns", "f", registry, sub.new_sender(), ComponentMetricId.ACTIVE_POWER, Quantity)
    text = _to_string(case["tree"], case)
    if case.get("pool"):
        # through the engine pool (what LogicalMeter.start_formula uses), after another formula was started on the same
        # pool: the same text without its parentheses (a different expression unless there were none)
        from frequenz.sdk.timeseries.formula_engine._formula_engine_pool import (  # pylint: disable=import-outside-toplevel
            FormulaEnginePool,
        )

        pool = FormulaEnginePool("ns", registry, sub.new_sender())
        ranked: list[tuple[float, str]] = []
        # derived from the text as generated and from the same tree written with the necessary parentheses only
        for base in (text, _to_string(case["tree"], {**case, "style": "minimal", "ws": [""]})):
            ranked.append((2, base.replace("(", "").replace(")", "")))
            stack: list[int] = []
            for pos, ch in enumerate(base):      # ... and the text with one pair of parentheses removed
                if ch == "(":
                    stack.append(pos)
                elif ch == ")" and stack:
                    start = stack.pop()
                    inner = base[start + 1:pos]
                    before = base[:start].rstrip()
                    # pairs that change the meaning come first: a group right of '/' or '-', or one holding a weaker operator
                    rank = 0 if before.endswith(("/", "-")) else 1 if before.endswith("*") and ("+" in inner or "-" in inner) else 3
                    ranked.append((rank, base[:start] + inner + base[pos + 1:]))
        # ... each also the way one would normally type it (no blanks inside parentheses, one around each operator)
        ranked += [(rank + 0.5, re.sub(r"([-+*/])", r" \1 ", re.sub(r"\s+", "", d))) for rank, d in list(ranked)]
        decoys = []
        for _, d in sorted(ranked):
            if d != text and d not in decoys:
                decoys.append(d)
        for decoy in decoys[:8]:
            rig.keep.append(pool.from_string(decoy, ComponentMetricId.ACTIVE_POWER, nones_are_zeros=case["global_zero"]))
            rig.keep.append(str(rig.keep[-1]))
        rig.engine = pool.from_string(text, ComponentMetricId.ACTIVE_POWER, nones_are_zeros=case["global_zero"])
        rig.keep.append(pool)
    else:
        rig.engine = builder.from_string(text, nones_are_zeros=case["global_zero"])
    rig.keep.append(text)
    for i in _used(case["tree"], set()):
        name = ComponentMetricRequest("ns", i + 1, ComponentMetricId.ACTIVE_POWER, None).get_channel_name()
        rig.senders[i] = registry.get_or_create(Sample[Quantity], name).new_sender()


def _build_builder(case: dict[str, Any], rig: _Rig) -> None:
    builder: Any = FormulaBuilder("f", Quantity)
    chans: dict[int, Any] = {}
    for kind, val in _tokens(case["tree"]):
        if kind == "m":
            if val not in chans:
                chans[val] = Broadcast(name=f"in{val}")
                rig.senders[val] = chans[val].new_sender()
            builder.push_metric(f"in{val}", chans[val].new_receiver(limit=100), nones_are_zeros=case["zeros"][val])
        elif kind == "c":
            builder.push_constant(float(val))
        elif kind == "clip":
            builder.push_clipper(val[0], val[1])
        else:
            builder.push_oper(val)
    rig.keep.append(chans)
    rig.engine = builder.build()


def _build_api(case: dict[str, Any], rig: _Rig) -> None:
    leaves: dict[int, Any] = {}
    chans: dict[int, Any] = {}

    def leaf(i: int) -> Any:
        if i not in leaves:
            chans[i] = Broadcast(name=f"in{i}")
            rig.senders[i] = chans[i].new_sender()
            b: Any = FormulaBuilder(f"leaf{i}", Quantity)
            b.push_metric(f"in{i}", chans[i].new_receiver(limit=100), nones_are_zeros=False)
            leaves[i] = b.build()
        return leaves[i]

    def fold(node: Any) -> Any:
        op = node[0]
        if op == "s":
            return leaf(node[1])
        if op == "cons":
            return fold(node[1]).consumption()
        if op == "prod":
            return fold(node[1]).production()
        left = fold(node[1])
        if node[2][0] == "c":
            right: Any = Quantity(float(node[2][1])) if op in ("+", "-", "max", "min") else float(node[2][1])
        else:
            right = fold(node[2])
        if op == "+":
            return left + right
        if op == "-":
            return left - right
        if op == "*":
            return left * right
        if op == "/":
            return left / right
        if op == "max":
            return left.max(right)
        return left.min(right)

    root = fold(case["tree"])
    rig.keep += [leaves, chans]
    rig.engine = root.build("top", nones_are_zeros=case["global_zero"])


def _has_const(node: Any) -> bool:
    return node[0] == "c" or any(_has_const(c) for c in _children(node))


def _depth(node: Any) -> int:
    return 0 if node[0] in ("s", "c") else 1 + max(_depth(c) for c in _children(node))


def _has(node: Any, ops: set[str]) -> bool:
    return node[0] in ops or any(_has(c, ops) for c in _children(node))


def _interaction(node: Any) -> bool:
    if node[0] in ("s", "c"):
        return False
    if node[0] in ARITH and any(c[0] in ARITH for c in _children(node)):
        return True
    return any(_interaction(c) for c in _children(node))


def _second_of_minmax_missing(node: Any, missing: set[int]) -> bool:
    if node[0] in ("s", "c"):
        return False
    if node[0] in ("max", "min") and _used(node[2], set()) & missing:
        return True
    return any(_second_of_minmax_missing(c, missing) for c in _children(node))


def _sample_value(x: Any) -> Any:
    if x == "none":
        return None
    if x == "nan":
        return Quantity(math.nan)
    if x == "inf":
        return Quantity(math.inf)
    if x == "-inf":
        return Quantity(-math.inf)
    return Quantity(float(x))


def run_case(case: Any, pid: str) -> Verdict:
    v = Verdict()
    route, tree = case["route"], case["tree"]
    v.labels.add("route_" + route)
    used = _used(tree, set())
    if route == "builder":
        zero_streams = {i for i in used if case["zeros"][i]}
    else:
        zero_streams = set(used) if case["global_zero"] else set()
    outputs: list[Any] = []

    async def scenario() -> None:
        rig = _Rig()
        {"string": _build_string, "api": _build_api, "builder": _build_builder, "api3": _build_api3}[route](case, rig)
        early = case.get("early") or [[] for _ in range(NSTREAMS)]
        if route != "api3":
            # earlier samples, delivered before the consumer starts (they sit in the input receivers)
            for i in sorted(rig.senders):
                for n, val in enumerate(early[i]):
                    ts_early = world.T0 - timedelta(seconds=len(early[i]) - n)
                    await rig.senders[i].send(Sample(ts_early, _sample_value(val)))
        # printing a formula is an observation: it must not change what the formula computes
        show = case.get("show", 0)
        if show in (1, 3):
            str(rig.engine)
        rx = rig.engine.new_receiver()
        await world.settle(2)
        for k, row in enumerate(case["rows"]):
            if k == 1 and show in (2, 3):
                str(rig.engine)
            ts = world.T0 + timedelta(seconds=k)
            for i in sorted(rig.senders):
                if route == "api3":
                    for ph in range(3):
                        val = row[i] if isinstance(row[i], str) else row[i] + ph
                        await rig.senders3[i][ph].send(Sample(ts, _sample_value(val)))
                else:
                    await rig.senders[i].send(Sample(ts, _sample_value(row[i])))
            await world.settle(3)
            got = []
            while True:
                try:
                    sample = await asyncio.wait_for(rx.receive(), timeout=0.001)
                except asyncio.TimeoutError:
                    break
                if sample.timestamp >= world.T0:  # samples for the staggered prefix are not judged
                    got.append(sample)
            outputs.append((ts, got))

    try:
        world.run(scenario)
    except (RuntimeError, AssertionError, ValueError) as exc:
        v.fail(f"building/running the formula raised {type(exc).__name__}: {exc}")
        return v

    interaction = _interaction(tree)
    if interaction:
        v.labels.add("precedence_interaction")
    if any(len(case.get("early", [[]] * NSTREAMS)[i]) for i in used) and route != "api3":
        v.labels.add("staggered_start")
    if case.get("show"):
        v.labels.add("formula_printed_before_or_while_running")
    if case.get("pool") and route == "string":
        v.labels.add("string_formula_through_the_engine_pool")
        if len({len(case["early"][i]) for i in used}) > 1 and any(
                isinstance(x, str) for i in used for x in case["early"][i]):
            v.labels.add("missing_value_in_skipped_sample")
    rich = _has(tree, {"max", "min", "cons", "prod", "clip"})
    if _has(tree, {"clip"}):
        v.labels.add("has_clipper")
    if rich:
        v.labels.add("has_minmax_or_unary")
    nt13 = False
    for k, (row, (ts, got)) in enumerate(zip(case["rows"], outputs)):
        missing = {i for i in used if isinstance(row[i], str)}
        vals: list[Fr | None] = []
        for i in range(NSTREAMS):
            if isinstance(row[i], str):
                vals.append(Fr(0) if i in zero_streams else None)
            else:
                vals.append(Fr(row[i]))
        try:
            PEAK[0] = Fr(0)
            TINY[0] = Fr(1)
            VALS.clear()
            want, mag, _ = _ref(tree, vals)
            hi_any, lo_any = _assoc_bounds(tree)
            mag = max(mag, PEAK[0])
            peak = max(mag, hi_any)
            TINY[0] = min(TINY[0], lo_any)
        except _Amb:
            v.labels.add("excluded_ill_conditioned_timestamp")
            continue
        if TINY[0] < Fr(1, 10 ** 300):
            # an intermediate underflows in binary64: not judged
            v.labels.add("excluded_ill_conditioned_timestamp")
            continue
        if peak > Fr(10) ** 300:
            # binary64 overflows somewhere (under the conventional or the engine's association): only the clear case is judged (the exact result itself is beyond
            # the float range AND a plain float evaluation is not finite either, i.e. no cancellation hides it)
            fvals = [None if x is None else float(x) for x in vals]
            fl = _float_eval(tree, fvals)
            fl_engine = _float_eval(_engine_association(tree), fvals)
            if want is not None and abs(want) > Fr(2) ** 1024 and not math.isfinite(fl) and not math.isfinite(fl_engine):
                want = None
                v.labels.add("overflowing_result")
            else:
                v.labels.add("excluded_ill_conditioned_timestamp")
                continue
        zero_den = False
        if want is None and not (missing - zero_streams):
            zero_den = True
            v.labels.add("zero_denominator")
        if pid == "C05" and (want is None or missing):
            continue  # C13's subject
        if missing:
            v.labels.add("has_missing")
            if _second_of_minmax_missing(tree, missing - zero_streams):
                v.labels.add("missing_second_of_minmax")
                nt13 = True
            if (missing & zero_streams) and (used - zero_streams):
                v.labels.add("mixed_zero_and_propagate")
                nt13 = True
        if zero_den:
            nt13 = True
        where = f"timestamp {k} values {[row[i] for i in sorted(used)]} (streams {sorted(used)})"
        if route == "api3":
            if len(got) != 1:
                v.fail(f"{where}: {len(got)} three-phase samples emitted, expected exactly 1")
                continue
            for ph, pv in enumerate((got[0].value_p1, got[0].value_p2, got[0].value_p3)):
                vals_p = [None if x is None else (x if (isinstance(row[i], str)) else x + ph) for i, x in enumerate(vals)]
                try:
                    PEAK[0] = Fr(0)
                    VALS.clear()
                    want_p, mag_p, _ = _ref(tree, vals_p)
                    mag_p = max(mag_p, PEAK[0], _assoc_bounds(tree)[0])
                except _Amb:
                    continue
                if mag_p > Fr(10) ** 300:
                    continue
                if want_p is None:
                    if pv is not None:
                        v.fail(f"{where}: phase {ph + 1} emitted {pv.base_value}, expected None")
                elif pv is None:
                    v.fail(f"{where}: phase {ph + 1} emitted None, expected {float(want_p)}")
                elif abs(pv.base_value - float(want_p)) > 1e-9 * max(1.0, float(mag_p)):
                    v.fail(f"{where}: phase {ph + 1} emitted {pv.base_value!r}, arithmetic value is {float(want_p)!r}")
            continue
        if len(got) != 1:
            v.fail(f"{where}: {len(got)} samples emitted, expected exactly 1 "
                   f"(reference {'None' if want is None else float(want)})")
            continue
        out = got[0]
        if out.timestamp != ts:
            v.fail(f"{where}: output stamped {out.timestamp}, inputs stamped {ts}")
        if want is None:
            if out.value is not None:
                v.fail(f"{where}: emitted {out.value.base_value}, expected None (an input is missing or the result is undefined)")
        elif out.value is None:
            v.fail(f"{where}: emitted None, expected {float(want)}")
        else:
            tol = 1e-9 * max(1.0, float(min(mag, Fr(10) ** 300)))
            if abs(out.value.base_value - float(want)) > tol:
                v.fail(f"{where}: emitted {out.value.base_value!r}, arithmetic value is {float(want)!r} (tolerance {tol:g})")
    if pid == "C05":
        v.nontrivial = interaction or (route != "string" and _depth(tree) >= 3 and rich)
    else:
        v.nontrivial = nt13
    return v


def describe(case: Any) -> Any:
    out = dict(case)
    if case["route"] == "string":
        out["formula"] = _to_string(case["tree"], case)
    return out
