"""C12 — generated microgrid power formulas balance for every topology.

Random valid component trees with a physical power assignment (every meter reads the sum
of what is below it plus its own unmetered load); every generated formula engine is run
for real (channels fed by the harness in the role of the resampling actor) and compared
with the ground-truth totals known from the construction.
"""

from __future__ import annotations

import asyncio
from datetime import timedelta
from typing import Any

from hypothesis import strategies as st

from frequenz.channels import Broadcast
from frequenz.client.microgrid import ComponentCategory, Connection
from frequenz.quantities import Quantity
from frequenz.sdk._internal._channels import ChannelRegistry
from frequenz.sdk.microgrid.component_graph import InvalidGraphError
from frequenz.sdk.timeseries import Sample
from frequenz.sdk.timeseries.formula_engine._formula_generators import (
    BatteryPowerFormula,
    CHPPowerFormula,
    ConsumerPowerFormula,
    EVChargerPowerFormula,
    FormulaGeneratorConfig,
    GridPowerFormula,
    ProducerPowerFormula,
    PVPowerFormula,
)

from .. import fakes, world
from ..core import Verdict

IDS = ("C12",)
BUDGET = {"quick": 3000, "thorough": 12000}
SIZE_BOUNDS = {
    "quick": "grid + grid meter or 1-4 grid successors; meters nested <= 3 levels; <= 3 children per meter; 7 formulas x "
             "fallback on/off x 2 power assignments per graph",
    "thorough": "meters nested <= 5 levels, <= 4 children per meter",
}
RULE = {
    "C12": (
        "Hypothesis-generated component trees: grid, then a grid meter or 1-4 direct grid successors; below a meter 0-3 children "
        "from {meter, battery inverter with 1-2 batteries, two battery inverters sharing 1-2 batteries, PV inverter, EV charger, "
        "CHP(s) under a dedicated meter}; battery / PV / EV formulas are also generated for a generated *subset* of the devices "
        "(a pool over some components); every graph "
        "goes through the repository's own validation (rejected graphs are counted, not used). Devices get powers on separate "
        "decimal scales (battery +-1..9, PV -10..-90, EV 100..900, CHP -1000..-9000, unmetered load 10000..90000 at every meter "
        "that is not dedicated to one device type), meters read the sum below plus their load. Each of the seven generators, "
        "with and without allow_fallback, is run as a real engine on harness-fed channels and compared (1e-6) with the totals "
        "known from the construction; grid == consumer + producer + battery + EV. Non-trivial = (>=2 meter levels or >=2 grid "
        "successors) and >=2 device types; distinct by SHA-1 of the canonical JSON case."
    )
}
ASSUMPTIONS = [
    "the harness plays the resampling actor: it answers every ComponentMetricRequest of an engine with one sample per tick",
    "all component streams are delivered in lock-step; they are valid in the two balance phases; in a third phase one "
    "generated meter delivers missing values for five ticks and a formula may then emit None or the true total only "
    "(which source is read when is C19's subject); a grid meter whose direct successors are all one device type is not "
    "made to fail (the generators' primary formulas allow load there, their fallback assumes none)",
    "unmetered load exists only at meters not dedicated to one device type (the statement's physical model); the grid meter "
    "is never a device meter (component_graph.is_*_meter exclude it) and always carries load",
]
MIN_LABELS = {"C12": {"pool_over_subset": 0.1, "inverters_sharing_batteries": 0.1, "no_grid_meter": 0.25, "grid_meter": 0.25, "nested_meters": 0.3, "mixed_meter": 0.3,
                      "meter_goes_missing": 0.15, "mixed_or_grid_meter_goes_missing": 0.05}}

FORMULAS = {
    "grid": GridPowerFormula,
    "consumer": ConsumerPowerFormula,
    "producer": ProducerPowerFormula,
    "battery": BatteryPowerFormula,
    "pv": PVPowerFormula,
    "ev": EVChargerPowerFormula,
    "chp": CHPPowerFormula,
}


def _subtree(depth: int, max_depth: int, max_children: int) -> st.SearchStrategy[dict[str, Any]]:
    digit = st.integers(1, 9)
    leaves = [
        st.fixed_dictionaries({"k": st.just("batinv"), "nbat": st.sampled_from([1, 1, 2]),
                               "p": st.tuples(digit, digit), "sign": st.sampled_from([1, -1])}),
        st.fixed_dictionaries({"k": st.just("batinv2"), "nbat": st.sampled_from([1, 2]),
                               "p": st.tuples(digit, digit), "q": st.tuples(digit, digit), "sign": st.sampled_from([1, -1])}),
        st.fixed_dictionaries({"k": st.just("pvinv"), "p": st.tuples(digit, digit)}),
        st.fixed_dictionaries({"k": st.just("ev"), "p": st.tuples(digit, digit)}),
    ]
    if depth >= max_depth:
        return st.one_of(leaves)
    chp = st.fixed_dictionaries({"k": st.just("chpmeter"), "n": st.sampled_from([1, 1, 2]),
                                 "p": st.lists(st.tuples(digit, digit), min_size=2, max_size=2)})
    meter = st.fixed_dictionaries({
        "k": st.just("meter"),
        "load": st.tuples(digit, digit),
        "children": st.lists(st.deferred(lambda: _subtree(depth + 1, max_depth, max_children)),
                             min_size=0, max_size=max_children),
    })
    return st.one_of(leaves + [meter, meter, chp])


def strategy(tier: str, pid: str = "C12") -> st.SearchStrategy[Any]:
    del pid
    max_depth, max_children = (3, 3) if tier == "quick" else (5, 4)
    top = st.lists(_subtree(1, max_depth, max_children), min_size=1, max_size=4)
    return st.fixed_dictionaries({
        "grid_meter": st.booleans(),
        "gm_load": st.tuples(st.integers(1, 9), st.integers(1, 9)),
        # third phase: one meter delivers missing values for five ticks; a formula may then emit None (no usable
        # fallback) or the true total (fallback components), never anything else
        "missing_meter": st.one_of(st.none(), st.integers(0, 7)),
        "early_mask": st.one_of(st.just([False]), st.lists(st.booleans(), min_size=5, max_size=5)),
        "top": top,
        "subset": st.lists(st.booleans(), min_size=12, max_size=12),
    })


class _Graph:
    def __init__(self) -> None:
        self.comps: set[Any] = set()
        self.conns: set[Connection] = set()
        self.kind: dict[int, str] = {}
        self.children: dict[int, list[int]] = {}
        self.spec: dict[int, dict[str, Any]] = {}
        self.nid = 1
        self.shared = False

    def add(self, comp_fn: Any, kind: str, parent: int | None, spec: dict[str, Any] | None = None) -> int:
        cid = self.nid
        self.nid += 1
        self.comps.add(comp_fn(cid))
        self.kind[cid] = kind
        self.children[cid] = []
        self.spec[cid] = spec or {}
        if parent is not None:
            self.conns.add(Connection(parent, cid))
            self.children[parent].append(cid)
        return cid

    def build(self, node: dict[str, Any], parent: int) -> None:
        k = node["k"]
        if k == "batinv":
            inv = self.add(fakes.bat_inverter, "batinv", parent, node)
            for _ in range(node["nbat"]):
                self.add(fakes.battery, "bat", inv)
        elif k == "batinv2":
            # two battery inverters sharing the same batteries
            inv1 = self.add(fakes.bat_inverter, "batinv", parent, node)
            inv2 = self.add(fakes.bat_inverter, "batinv", parent, dict(node, p=node["q"]))
            for _ in range(node["nbat"]):
                bat = self.add(fakes.battery, "bat", inv1)
                self.conns.add(Connection(inv2, bat))
                self.children[inv2].append(bat)
            self.shared = True
        elif k == "pvinv":
            self.add(fakes.pv_inverter, "pvinv", parent, node)
        elif k == "ev":
            self.add(fakes.ev_charger, "ev", parent, node)
        elif k == "chpmeter":
            m = self.add(fakes.meter, "meter", parent, {"load": (0, 0)})
            for i in range(node["n"]):
                self.add(fakes.chp, "chp", m, {"p": node["p"][i]})
        else:
            m = self.add(fakes.meter, "meter", parent, node)
            for child in node["children"]:
                self.build(child, m)

    def dedicated(self, m: int) -> bool:
        # the grid meter (sole successor of the grid connection) is never a device meter, whatever is below it:
        # it may carry unmetered load (component_graph.is_*_meter all exclude it)
        if self.children[1] == [m]:
            return False
        kinds = {self.kind[c] for c in self.children[m]}
        return len(kinds) == 1 and kinds <= {"batinv", "pvinv", "ev", "chp"}

    def has_device_below(self, m: int) -> bool:
        return any(self.kind[c] != "meter" or self.has_device_below(c) for c in self.children[m])

    def assign(self, which: int) -> tuple[dict[int, float], dict[int, float]]:
        val: dict[int, float] = {}
        load: dict[int, float] = {}

        def rec(n: int) -> float:
            k = self.kind[n]
            sp = self.spec[n]
            if k == "batinv":
                v = sp["sign"] * (1 if which == 0 else -1) * float(sp["p"][which])
            elif k == "pvinv":
                v = -10.0 * sp["p"][which]
            elif k == "ev":
                v = 100.0 * sp["p"][which]
            elif k == "chp":
                v = -1000.0 * sp["p"][which]
            elif k == "bat":
                v = 0.0
            else:
                v = sum(rec(c) for c in self.children[n])
                if k == "meter" and not self.dedicated(n):
                    load[n] = 10000.0 * sp["load"][which]
                    v += load[n]
            val[n] = v
            return v

        rec(1)
        return val, load


def _make(case: dict[str, Any]) -> _Graph:
    g = _Graph()
    grid = g.add(fakes.grid, "grid", None)
    if case["grid_meter"]:
        gm = g.add(fakes.meter, "meter", grid, {"load": case["gm_load"]})
        for node in case["top"]:
            g.build(node, gm)
    else:
        for node in case["top"]:
            g.build(node, grid)
    return g


def run_case(case: Any, pid: str) -> Verdict:
    del pid
    v = Verdict()
    g = _make(case)
    grid_succ = g.children[1]
    try:
        graph = fakes.build_graph(g.comps, g.conns)
    except InvalidGraphError:
        v.labels.add("graph_rejected_by_validation")
        return v
    plain_gm = len(grid_succ) == 1 and g.kind[grid_succ[0]] == "meter"
    all_plain = all(g.kind[c] == "meter" and not g.dedicated(c) for c in grid_succ)
    meters = [n for n, k in g.kind.items() if k == "meter"]
    nested = any(g.kind[c] == "meter" for m in meters for c in g.children[m])
    mixed = any((not g.dedicated(m)) and g.has_device_below(m) for m in meters)
    types = {k for k in g.kind.values() if k in ("batinv", "pvinv", "ev", "chp")}
    v.labels.add("grid_meter" if plain_gm else "no_grid_meter")
    if nested:
        v.labels.add("nested_meters")
    if mixed:
        v.labels.add("mixed_meter")
    if not all_plain:
        v.labels.add("grid_successors_not_all_plain_meters")
    if (not all_plain) and mixed:
        v.classes.add("consumer-without-grid-meter-mixed-meter")
    v.nontrivial = (nested or len(grid_succ) >= 2) and len(types) >= 2

    bats = {n for n, k in g.kind.items() if k == "bat"}
    evs = {n for n, k in g.kind.items() if k == "ev"}
    pvs = {n for n, k in g.kind.items() if k == "pvinv"}
    ids_for = {"battery": bats, "pv": pvs, "ev": evs}
    # pools over a subset of the devices (what a user's *Pool with component_ids passes)
    mask = case.get("subset", [True] * 12)
    inverters = sorted(n for n, k in g.kind.items() if k == "batinv")
    bat_groups: dict[frozenset[int], set[int]] = {}
    for inv in inverters:
        bat_groups.setdefault(frozenset(g.children[inv]), set()).add(inv)
    sub_inverters: set[int] = set()
    sub_bats: set[int] = set()
    for i, (group_bats, invs) in enumerate(sorted(bat_groups.items(), key=lambda kv: sorted(kv[0]))):
        if mask[i % 12]:
            sub_bats |= set(group_bats)
            sub_inverters |= invs
    subsets: dict[str, set[int]] = {}
    if sub_bats and sub_bats != bats:
        subsets["battery_subset"] = sub_bats
    sub_pv = {n for i, n in enumerate(sorted(pvs)) if mask[(i + 3) % 12]}
    if sub_pv and sub_pv != pvs:
        subsets["pv_subset"] = sub_pv
    sub_ev = {n for i, n in enumerate(sorted(evs)) if mask[(i + 7) % 12]}
    if sub_ev and sub_ev != evs:
        subsets["ev_subset"] = sub_ev
    if subsets:
        v.labels.add("pool_over_subset")
    if g.shared:
        v.labels.add("inverters_sharing_batteries")

    async def scenario() -> None:
        api = fakes.FakeApi(g.comps, g.conns)
        with fakes.connection(graph, api):
            registry = ChannelRegistry(name="c12")
            sub_chan: Any = Broadcast(name="c12-sub")
            sub_rx = sub_chan.new_receiver(limit=10000)
            engines: list[tuple[str, bool, Any, Any]] = []
            todo = list(FORMULAS.items()) + [(n, FORMULAS[n.split("_")[0]]) for n in subsets]
            for name, cls in todo:
                for fb in (True, False):
                    cfg = FormulaGeneratorConfig(component_ids=subsets.get(name, ids_for.get(name)), allow_fallback=fb)
                    try:
                        eng = cls(f"ns-{name}-{fb}", registry, sub_chan.new_sender(), cfg).generate()
                        engines.append((name, fb, eng, eng.new_receiver()))
                    except Exception as exc:  # pylint: disable=broad-except
                        if name in ids_for and not ids_for[name]:
                            continue  # no such devices: nothing to balance
                        v.fail(f"{name} (fallback={fb}): generate() raised {type(exc).__name__}: {exc}")
            await world.settle(2)
            requests = []
            truth0: dict[str, float] = {}
            while True:
                try:
                    requests.append(await asyncio.wait_for(sub_rx.receive(), timeout=0.001))
                except asyncio.TimeoutError:
                    break
            # staggered start: some component streams already carry an older sample (other values) when the engines
            # begin, so their first evaluation has to synchronise the inputs to the common timestamp
            emask = case.get("early_mask") or [False]
            if any(emask):
                v.labels.add("component_streams_start_at_different_ticks")
                val_e, _ = g.assign(1)
                done_e = set()
                for k_e, req in enumerate(sorted(requests, key=lambda r: r.get_channel_name())):
                    name = req.get_channel_name()
                    if name in done_e or not emask[k_e % len(emask)]:
                        continue
                    done_e.add(name)
                    value = val_e.get(req.component_id)
                    await registry.get_or_create(Sample[Quantity], name).new_sender().send(
                        Sample(world.T0 - timedelta(seconds=1), None if value is None else Quantity(value + 7.0)))
                await world.settle(2)
            for which in (0, 1):
                val, load = g.assign(which)
                truth = {
                    "grid": sum(val[c] for c in grid_succ),
                    "consumer": sum(load.values()),
                    "battery": sum(x for n, x in val.items() if g.kind[n] == "batinv"),
                    "pv": sum(x for n, x in val.items() if g.kind[n] == "pvinv"),
                    "ev": sum(x for n, x in val.items() if g.kind[n] == "ev"),
                    "chp": sum(x for n, x in val.items() if g.kind[n] == "chp"),
                }
                truth["producer"] = truth["pv"] + truth["chp"]
                for name, ids in subsets.items():
                    kind = {"battery_subset": "batinv", "pv_subset": "pvinv", "ev_subset": "ev"}[name]
                    if kind == "batinv":
                        truth[name] = sum(val[n] for n in sub_inverters)
                    else:
                        truth[name] = sum(val[n] for n in ids)
                if which == 0:
                    truth0 = dict(truth)
                ts = world.T0.replace(second=which)
                sent = set()
                for req in requests:
                    name = req.get_channel_name()
                    if name in sent:
                        continue
                    sent.add(name)
                    value = val.get(req.component_id)
                    sample = Sample(ts, None if value is None else Quantity(value))
                    await registry.get_or_create(Sample[Quantity], name).new_sender().send(sample)
                await world.settle(3)
                got: dict[tuple[str, bool], float] = {}
                for name, fb, eng, rx in engines:
                    try:
                        out = await asyncio.wait_for(rx.receive(), timeout=0.01)
                        while out.timestamp < ts:   # outputs for the older samples of a staggered start
                            out = await asyncio.wait_for(rx.receive(), timeout=0.01)
                    except Exception:  # pylint: disable=broad-except
                        v.fail(f"{name} (fallback={fb}): no output for tick {which}; formula {eng}")
                        continue
                    if out.timestamp != ts:
                        v.fail(f"{name} (fallback={fb}): output stamped {out.timestamp} while the inputs of {ts} were fed")
                        continue
                    if out.value is None:
                        v.fail(f"{name} (fallback={fb}): output None with all inputs valid; formula {eng}")
                        continue
                    got[(name, fb)] = out.value.as_watts()
                    if abs(got[(name, fb)] - truth[name]) > 1e-6:
                        v.fail(f"{name} (fallback={fb}): formula {eng} = {got[(name, fb)]} W, true {name} power is "
                               f"{truth[name]} W (assignment {which})")
                for fb in (True, False):
                    keys = [(n, fb) for n in ("grid", "consumer", "producer", "battery", "ev")]
                    if all(k in got for k in keys):
                        parts = sum(got[k] for k in keys[1:])
                        if abs(got[("grid", fb)] - parts) > 1e-6:
                            v.fail(f"fallback={fb}: grid {got[('grid', fb)]} != consumer+producer+battery+ev {parts}")

            meters = sorted(n for n, k in g.kind.items() if k == "meter")
            if v.violations or not meters or case.get("missing_meter") is None:
                return
            mm = meters[case["missing_meter"] % len(meters)]
            kinds_below = {g.kind[c] for c in g.children[mm]}
            if g.children[1] == [mm] and len(kinds_below) == 1 and kinds_below <= {"batinv", "pvinv", "ev", "chp"}:
                # a grid meter whose direct successors are all one device type: the generators' primary formulas allow
                # unmetered load there, their fallback (the successors) assumes there is none; the statement's physical
                # model does not say which, so this meter is not made to fail
                v.labels.add("missing_meter_skipped_grid_meter_over_one_device_type")
                return
            v.labels.add("meter_goes_missing")
            if not g.dedicated(mm) and g.has_device_below(mm):
                v.labels.add("mixed_or_grid_meter_goes_missing")
            val, _ = g.assign(0)
            for _name, _fb, _eng, rx in engines:   # drop what is still queued
                while True:
                    try:
                        await asyncio.wait_for(rx.receive(), timeout=0.001)
                    except Exception:  # pylint: disable=broad-except
                        break
            for tick in range(2, 7):
                while True:
                    try:
                        requests.append(await asyncio.wait_for(sub_rx.receive(), timeout=0.001))
                    except asyncio.TimeoutError:
                        break
                ts = world.T0.replace(second=tick)
                sent = set()
                for req in requests:
                    name = req.get_channel_name()
                    if name in sent:
                        continue
                    sent.add(name)
                    value = None if req.component_id == mm else val.get(req.component_id)
                    await registry.get_or_create(Sample[Quantity], name).new_sender().send(
                        Sample(ts, None if value is None else Quantity(value)))
                await world.settle(3)
                for name, fb, eng, rx in engines:
                    while True:
                        try:
                            out = await asyncio.wait_for(rx.receive(), timeout=0.001)
                        except Exception:  # pylint: disable=broad-except
                            break
                        if out.value is not None and abs(out.value.as_watts() - truth0[name]) > 1e-6:
                            v.fail(f"{name} (fallback={fb}): with meter {mm} delivering missing values the formula {eng} "
                                   f"emitted {out.value.as_watts()} W at tick {tick}; the true {name} power is "
                                   f"{truth0[name]} W and None would be the only other admissible output")
                            return

    world.run(scenario)
    return v


def describe(case: Any) -> Any:
    g = _make(case)

    def show(n: int) -> Any:
        return {f"{n}:{g.kind[n]}": [show(c) for c in g.children[n]]}

    return {"tree": show(1)}
