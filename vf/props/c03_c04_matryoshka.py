"""C03 / C04 — Matryoshka target power: envelope, history-freedom, priority semantics.

C03: proposal *histories* (propose / advance+expire / system-bounds change); oracle =
envelope predicate after every operation + metamorphic history-freedom (a fresh
instance fed only the live proposals, in every permutation, yields the same target).

C04: conflict-free proposal *sets* with distinct priorities; oracle = independent
closed-interval reference over exact rationals + report/target relation + null proposal.
"""

from __future__ import annotations

import math

import itertools
from datetime import datetime, timedelta, timezone
from fractions import Fraction as Fr
from typing import Any

from hypothesis import strategies as st

from frequenz.quantities import Power
from frequenz.sdk.microgrid._power_managing._base_classes import Proposal
from frequenz.sdk.microgrid._power_managing._matryoshka import Matryoshka
from frequenz.sdk.timeseries._base_types import Bounds, SystemBounds

from ..core import Verdict

IDS = ("C03", "C04")
COMP = frozenset({1})
W = Power.from_watts
NOW = datetime(2024, 1, 1, tzinfo=timezone.utc)
MAX_AGE = 60.0

BUDGET = {"quick": {"C03": 1800, "C04": 3000}, "thorough": {"C03": 15000, "C04": 8000}}
SIZE_BOUNDS = {
    "quick": "<=8 actors, <=20 operations (C03) / <=7 proposals, <=8 re-sent proposals (C04); values on a grid of 5 W in [-250,250] plus floats",
    "thorough": "<=6 actors, <=30 operations (C03) / <=7 proposals (C04)",
}
RULE = {
    "C03": (
        "Hypothesis-generated histories over one component group: propose(actor, pref|None, lower|None, upper|None) "
        "replacing the actor's previous proposal, advance(dt)+drop_old_proposals, system-bounds changes; priorities "
        "with repetition, incompatible bounds allowed. After every op: envelope (inside inclusion bounds, 0 or outside "
        "the open exclusion zone) and equality with a fresh instance fed the live proposals; at the end all n! arrival "
        "orders (n<=5; 120 sampled for n=6) of the live set. Non-trivial = >=2 live proposals at the end, >=1 replacement "
        "or expiry in the history, and some bound/preference that clamps; distinct by SHA-1 of the canonical JSON case."
    ),
    "C04": (
        "Hypothesis-generated proposal sets with distinct priorities, built top-down so that the running intersection "
        "minus the exclusion zone stays non-empty (15% drawn freely and classified; conflicting sets are counted and "
        "skipped). Oracle: exact-rational closed-interval reference (nearest admissible point, both accepted on ties, 0 "
        "accepted for a preference of 0), report relation adjust_to_bounds(x)==(x,x) <=> proposing x yields target x for "
        "probe values around every interval edge, null-proposal equivalence. Non-trivial = >=2 actors and a higher-priority "
        "bound or the exclusion zone moves the deciding preference; distinct by SHA-1 of the canonical JSON case."
    ),
}
ASSUMPTIONS = [
    "a single proposal has lower <= upper (incompatibility is generated between proposals and against the system)",
    "C03: at an age of exactly max_proposal_age either reading (kept / dropped) is accepted",
    "C04: distinct priorities per actor (the report channel is keyed by priority)",
]
MIN_LABELS = {
    "C03": {"replacement": 0.3, "expiry": 0.1, "clamped": 0.3, "bounds_change": 0.2},
    "C04": {"conflict_free": 0.6, "clamped_by_higher": 0.05, "excl_moves": 0.015, "five_or_more_proposals_with_resends": 0.2},
}

GRID = [float(x) for x in range(-250, 251, 5)]


def _val(lo: float = -250.0, hi: float = 250.0) -> st.SearchStrategy[float]:
    grid = [g for g in GRID if lo <= g <= hi] or [lo]
    return st.one_of(st.sampled_from(grid), st.sampled_from(grid), st.floats(lo, hi).map(lambda x: round(x, 3)))


def _pick(draw: Any, items: list[Any]) -> Any:
    """draw(sampled_from(items)) without building a new (uncacheable) strategy per call."""
    return items[draw(st.integers(0, len(items) - 1))]


def _draw_val(draw: Any, lo: float = -250.0, hi: float = 250.0) -> float:
    """Same distribution as draw(_val(lo, hi)), built from cacheable strategies (generation was the bottleneck)."""
    if draw(st.integers(0, 2)) < 2:
        i0 = max(0, math.ceil((lo + 250.0) / 5.0))
        i1 = min(len(GRID) - 1, math.floor((hi + 250.0) / 5.0))
        return GRID[draw(st.integers(i0, i1))] if i0 <= i1 else lo
    return round(draw(st.floats(lo, hi)), 3)


@st.composite
def _sysbounds(draw: Any, subset_pct: int = 50) -> dict[str, float]:
    """System bounds lo <= 0 <= hi and exclusion zone el <= 0 <= eu.

    With probability subset_pct % the exclusion zone is drawn inside the inclusion bounds
    (the documented shape); otherwise independently, so it may exceed them on either side.
    """
    pos = [0.0, 10.0, 20.0, 30.0, 50.0, 100.0, 200.0]
    lo = -draw(st.one_of(st.sampled_from(pos), st.floats(0, 200).map(lambda x: round(x, 2))))
    hi = draw(st.one_of(st.sampled_from(pos), st.floats(0, 200).map(lambda x: round(x, 2))))
    excl = [0.0, 0.0, 10.0, 30.0, 50.0, 100.0, 7.5]
    if draw(st.integers(0, 99)) < subset_pct:
        el = -draw(st.sampled_from([e for e in excl if e <= -lo] + [-lo]))
        eu = draw(st.sampled_from([e for e in excl if e <= hi] + [hi]))
    else:
        el = -draw(st.sampled_from(excl))
        eu = draw(st.sampled_from(excl))
    return {"lo": lo + 0.0, "hi": hi + 0.0, "el": el + 0.0, "eu": eu + 0.0}


@st.composite
def _proposal_values(draw: Any) -> list[float | None]:
    pref = draw(st.one_of(st.none(), _val()))
    bl = draw(st.one_of(st.none(), st.none(), _val()))
    bu = draw(st.one_of(st.none(), st.none(), _val()))
    if bl is not None and bu is not None and bl > bu:
        bl, bu = bu, bl
    return [pref, bl, bu]


@st.composite
def _c03_case(draw: Any, max_ops: int) -> dict[str, Any]:
    n = draw(st.sampled_from([1, 2, 3, 4, 5, 6, 6, 7, 8]))
    actors = [[draw(st.integers(0, 9)), f"s{i}"] for i in range(n)]
    ops: list[list[Any]] = []
    # a third of the histories address several component groups on the same instance (6th element of a propose op)
    multi = draw(st.integers(0, 2)) == 0
    for _ in range(draw(st.integers(1, max_ops))):
        kind = draw(st.sampled_from(["p", "p", "p", "p", "p", "p", "a", "b"]))
        if kind == "p":
            ops.append(["propose", draw(st.integers(0, n - 1))] + draw(_proposal_values())
                       + ([draw(st.sampled_from([0, 0, 1, 2]))] if multi else []))
        elif kind == "a":
            ops.append(["advance", draw(st.sampled_from([1.0, 20.0, 30.0, 59.0, 60.0, 61.0, 100.0]))])
        else:
            ops.append(["bounds", draw(_sysbounds())])
    if multi and n >= 3 and draw(st.booleans()):
        # scripted opening for several groups: proposals of different age in two groups, so that later sweeps expire
        # them one by one (staggered expiry across groups is rare in uniformly drawn histories)
        ga, gb = draw(st.sampled_from([(0, 1), (1, 0), (0, 2), (2, 0)]))
        step = st.sampled_from([10.0, 20.0, 30.0, 40.0])
        a0, a1, a2 = draw(st.permutations(list(range(n))))[:3]
        opening = [["propose", a0] + draw(_proposal_values()) + [ga], ["advance", draw(step)],
                   ["propose", a1] + draw(_proposal_values()) + [ga], ["advance", draw(step)],
                   ["propose", a2] + draw(_proposal_values()) + [gb], ["advance", draw(step)], ["advance", draw(step)],
                   ["advance", draw(step)]]
        ops = opening + ops
    return {"kind": "C03", "sys": draw(_sysbounds()), "actors": actors, "ops": ops,
            "perm_seed": draw(st.integers(0, 10**6))}


@st.composite
def _c04_case(draw: Any, max_n: int) -> dict[str, Any]:
    sb = draw(_sysbounds(85))
    # light cases (four fifths) skip the expensive report relation and are spent on arrival order, replacement and
    # many proposals instead: target vs reference + "sending an identical proposal again changes nothing"
    light = draw(st.integers(0, 4)) > 0
    n = draw(st.sampled_from(list(range(1, max_n + 1)) + [5, 6, max_n])) if not light else draw(st.integers(4, max_n + 2))
    prios = draw(st.lists(st.integers(0, 20), min_size=n, max_size=n, unique=True))
    prios.sort(reverse=True)
    free = draw(st.integers(0, 99)) < 15
    props: list[dict[str, Any]] = []
    lo, hi = Fr(sb["lo"]), Fr(sb["hi"])
    for prio in prios:
        if free:
            pref, bl, bu = draw(_proposal_values())
        else:
            near = [e + d for e in (sb["lo"], sb["hi"], sb["el"], sb["eu"], float(lo), float(hi))
                    for d in (-5.0, -1.0, 0.0, 1.0, 5.0)] + [sb["el"] / 2, sb["eu"] / 2, (sb["el"] + sb["eu"]) / 2]
            kind = draw(st.integers(0, 2))
            pref = None if kind == 0 else _draw_val(draw) if kind == 1 else _pick(draw, near)
            ivs = _carve(lo, hi, Fr(sb["el"]), Fr(sb["eu"]))
            if not ivs:
                bl = bu = None
            else:
                # choose a point that stays admissible, then bounds around it
                a, b = ivs[draw(st.integers(0, len(ivs) - 1))]
                cands = [g for g in GRID if a <= g <= b] or [float(a)]
                point = _pick(draw, cands)
                tight = [0.0, 5.0, 10.0, 25.0, 50.0]
                kb = draw(st.integers(0, 3))
                bl = None if kb < 2 else _draw_val(draw, -250.0, point) if kb == 2 else max(-250.0, point - _pick(draw, tight))
                kb = draw(st.integers(0, 3))
                bu = None if kb < 2 else _draw_val(draw, point, 250.0) if kb == 2 else min(250.0, point + _pick(draw, tight))
                if bl is not None:
                    lo = max(lo, Fr(bl))
                if bu is not None:
                    hi = min(hi, Fr(bu))
        props.append({"prio": prio, "pref": pref, "bl": bl, "bu": bu})
    # arrival order: any permutation, or by rising / falling priority (degenerate shapes for ordered containers)
    order_kind = draw(st.sampled_from(["perm", "perm", "rising", "falling"]))
    order = (draw(st.permutations(list(range(n)))) if order_kind == "perm"
             else list(range(n - 1, -1, -1)) if order_kind == "rising" else list(range(n)))
    return {"kind": "C04", "sys": sb, "props": [props[i] for i in order],
            "null_prio": draw(st.integers(0, 41)) / 2.0,
            # identical proposals sent again after the set is complete (replacement by an equal proposal
            # must change nothing)
            "resend": draw(st.lists(st.integers(0, n - 1), min_size=2 if light else 0, max_size=12 if light else 8)),
            "light": light}


def strategy(tier: str, pid: str = "C03") -> st.SearchStrategy[Any]:
    max_ops = 20 if tier == "quick" else 40
    max_n = 7 if tier == "quick" else 8
    if pid == "C04":
        return _c04_case(max_n)
    # C03: mostly histories; proposal sets of the C04 generator are also valid C03 inputs
    return st.one_of(_c03_case(max_ops), _c03_case(max_ops), _c03_case(max_ops), _c04_case(max_n))


# --------------------------------------------------------------------------- helpers


def _sb(s: dict[str, float]) -> SystemBounds:
    return SystemBounds(
        timestamp=NOW,
        inclusion_bounds=Bounds(W(s["lo"]), W(s["hi"])),
        exclusion_bounds=Bounds(W(s["el"]), W(s["eu"])),
    )


GROUPS = [COMP, frozenset({2}), frozenset({3, 4})]
"""Component groups one Matryoshka instance may serve at once (histories address them by index)."""


def _proposal(prio: int, source: str, pref: float | None, bl: float | None, bu: float | None,
              created: float = 0.0, comp: frozenset[int] = COMP) -> Proposal:
    return Proposal(
        source_id=source,
        preferred_power=None if pref is None else W(pref),
        bounds=Bounds(None if bl is None else W(bl), None if bu is None else W(bu)),
        component_ids=comp,
        priority=prio,
        creation_time=created,
        set_operating_point=False,
    )


def _target_of(sb: SystemBounds, proposals: list[Proposal]) -> float:
    m = Matryoshka(timedelta(seconds=MAX_AGE))
    t = None
    for p in proposals:
        t = m.calculate_target_power(COMP, p, sb, must_return_power=True)
    assert t is not None
    return t.as_watts()


def _envelope(v: Verdict, t: float, s: dict[str, float], where: str) -> None:
    if not s["lo"] <= t <= s["hi"]:
        v.fail(f"{where}: target {t} outside inclusion bounds [{s['lo']}, {s['hi']}]")
    if t != 0 and s["el"] < t < s["eu"]:
        v.fail(f"{where}: non-zero target {t} strictly inside exclusion zone ({s['el']}, {s['eu']})")


# --------------------------------------------------------------------------- C03


def _run_c03(case: dict[str, Any]) -> Verdict:
    v = Verdict()
    sysb = dict(case["sys"])
    actors = case["actors"]
    hist = Matryoshka(timedelta(seconds=MAX_AGE))
    now = 0.0
    # model per component group: actor index -> (values, created, state) ; state in {"live", "maybe"}
    lives: dict[int, dict[int, dict[str, Any]]] = {0: {}}
    replaced = expired = False
    hist.calculate_target_power(COMP, None, _sb(sysb), must_return_power=True)

    def check_group(g: int, t: Any, where: str, proposed_before: bool) -> None:
        live = lives[g]
        if t is None:
            if proposed_before:
                v.fail(f"{where}: must_return_power=True returned None")
            return
        tw = t.as_watts()
        _envelope(v, tw, sysb, where)
        stored = hist.get_target_power(GROUPS[g])
        if stored is None or stored.as_watts() != tw:
            v.fail(f"{where}: get_target_power {stored} != returned target {tw}")
        # history-freedom against a fresh instance (canonical order), for each reading of "maybe"
        maybe = [ai for ai in live if live[ai]["maybe"]]
        accepted = set()
        for keep in itertools.product([True, False], repeat=len(maybe)):
            dropped = {ai for ai, k in zip(maybe, keep) if not k}
            props = [_proposal(actors[ai][0], actors[ai][1], *live[ai]["vals"]) for ai in sorted(live) if ai not in dropped]
            accepted.add(_target_of(_sb(sysb), props) if props else 0.0)
        if tw not in accepted:
            v.fail(f"{where}: target {tw} after the history differs from {sorted(accepted)} computed from the live proposals alone")

    seen_groups: list[int] = []
    for step, op in enumerate(case["ops"]):
        where = f"step {step} {op[0]}"
        try:
            if op[0] == "propose":
                _, ai, pref, bl, bu = op[:5]
                g = op[5] if len(op) > 5 else 0
                prio, src = actors[ai]
                live = lives.setdefault(g, {})
                if g not in seen_groups:
                    seen_groups.append(g)
                if len(seen_groups) > 1:
                    v.labels.add("several_component_groups_on_one_instance")
                if ai in live:
                    replaced = True
                live[ai] = {"vals": (pref, bl, bu), "created": now, "maybe": False}
                t = hist.calculate_target_power(GROUPS[g], _proposal(prio, src, pref, bl, bu, now, GROUPS[g]), _sb(sysb),
                                                must_return_power=True)
                check_group(g, t, where + (f" (group {g})" if g else ""), True)
            else:
                if op[0] == "advance":
                    now += op[1]
                    hist.drop_old_proposals(now)
                    for live in lives.values():
                        for ai in list(live):
                            age = now - live[ai]["created"]
                            if age > MAX_AGE:
                                del live[ai]
                                expired = True
                            elif age == MAX_AGE:
                                live[ai]["maybe"] = True
                else:
                    sysb = dict(op[1])
                    v.labels.add("bounds_change")
                # every group this instance has served is recomputed and judged (group 0 also before its first proposal)
                for g in ([0] if 0 not in seen_groups else []) + seen_groups:
                    t = hist.calculate_target_power(GROUPS[g], None, _sb(sysb), must_return_power=True)
                    check_group(g, t, where + (f" (group {g})" if g else ""), g in seen_groups)
        except Exception as exc:  # pylint: disable=broad-except
            v.fail(f"{where}: raised {type(exc).__name__}: {exc}")
            return v
        if v.violations:
            return v
    live = lives[0]

    # all arrival orders of the definitely-live set
    sure = [ai for ai in sorted(live) if not live[ai]["maybe"]]
    if not any(live[ai]["maybe"] for ai in live) and sure:
        props = [_proposal(actors[ai][0], actors[ai][1], *live[ai]["vals"]) for ai in sure]
        perms: Any = itertools.permutations(props)
        if len(props) > 5:
            v.labels.add("six_or_more_live_proposals")
            import random  # deterministic: seeded from the case  # pylint: disable=import-outside-toplevel

            rng = random.Random(case["perm_seed"])
            plist = []
            for _ in range(120):
                q = props[:]
                rng.shuffle(q)
                plist.append(q)
            perms = plist
        targets = {_target_of(_sb(sysb), list(p)) for p in perms}
        final = hist.get_target_power(COMP)
        if final is not None:
            targets.add(final.as_watts())
        if len(targets) > 1:
            v.fail(f"target depends on arrival order / history: {sorted(targets)}")
        v.labels.add("all_orders_checked")

    # classification
    clamped = False
    for ai in live:
        pref, bl, bu = live[ai]["vals"]
        if pref is not None and not (sysb["lo"] <= pref <= sysb["hi"]) or (
            pref is not None and pref != 0 and sysb["el"] < pref < sysb["eu"]):
            clamped = True
        for other in live:
            if other != ai and pref is not None:
                _, obl, obu = live[other]["vals"]
                if (obl is not None and pref < obl) or (obu is not None and pref > obu):
                    clamped = True
    if replaced:
        v.labels.add("replacement")
    if expired:
        v.labels.add("expiry")
    if clamped:
        v.labels.add("clamped")
    if any(live[ai]["maybe"] for ai in live):
        v.labels.add("age_exactly_at_limit")
    if len({a[0] for a in actors}) < len(actors):
        v.labels.add("equal_priorities")
    v.nontrivial = len(live) >= 2 and (replaced or expired) and clamped
    return v


# --------------------------------------------------------------------------- C04


def _carve(lo: Fr, hi: Fr, el: Fr, eu: Fr) -> list[tuple[Fr, Fr]]:
    """[lo, hi] minus the open zone (el, eu) as a list of closed intervals."""
    if lo > hi:
        return []
    if el == 0 and eu == 0:
        return [(lo, hi)]
    out = []
    if lo <= min(hi, el):
        out.append((lo, min(hi, el)))
    if max(lo, eu) <= hi:
        out.append((max(lo, eu), hi))
    return out


def _nearest(ivs: list[tuple[Fr, Fr]], x: Fr) -> set[Fr]:
    """Admissible points nearest to x; candidates whose distances differ by less than float noise tie."""
    cands = []
    for a, b in ivs:
        c = min(max(x, a), b)
        cands.append((abs(c - x), c))
    dmin = min(d for d, _ in cands)
    slack = Fr(1, 10**9) * max(Fr(1), abs(x), dmin)
    return {c for d, c in cands if d - dmin <= slack}


def _reference(sysb: dict[str, float], props: list[dict[str, Any]]) -> tuple[set[Fr] | None, dict[str, bool]]:
    """Accepted targets of a conflict-free set (None if the set conflicts) + classification."""
    info = {"clamped_by_higher": False, "excl_moves": False}
    lo, hi = Fr(sysb["lo"]), Fr(sysb["hi"])
    el, eu = Fr(sysb["el"]), Fr(sysb["eu"])
    sys_lo, sys_hi = lo, hi
    target: set[Fr] = {Fr(0)}
    if not _carve(lo, hi, el, eu):
        return None, info
    decided: dict[str, bool] = {}
    for p in sorted(props, key=lambda q: -q["prio"]):
        ivs = _carve(lo, hi, el, eu)
        if not ivs:
            return None, info
        if p["pref"] is not None:
            x = Fr(p["pref"])
            target = _nearest(ivs, x)
            decided = {
                "clamped_by_higher": (x < lo and lo > sys_lo) or (x > hi and hi < sys_hi),
                "excl_moves": x != 0 and el < x < eu,
            }
            if x == 0 and lo <= 0 <= hi:
                target = target | {Fr(0)}
        if p["bl"] is not None:
            lo = max(lo, Fr(p["bl"]))
        if p["bu"] is not None:
            hi = min(hi, Fr(p["bu"]))
        if not _carve(lo, hi, el, eu):
            return None, info
    info.update(decided)
    return target, info


def _feed(sysb: dict[str, float], props: list[dict[str, Any]], resend: list[int] | None = None) -> tuple[Matryoshka, float]:
    m = Matryoshka(timedelta(seconds=MAX_AGE))
    sb = _sb(sysb)
    t = m.calculate_target_power(COMP, None, sb, must_return_power=True)
    order = list(range(len(props))) + [i % len(props) for i in (resend or [])] if props else []
    for i in order:
        p = props[i]
        t = m.calculate_target_power(COMP, _proposal(p["prio"], f"s{i}", p["pref"], p["bl"], p["bu"]), sb,
                                     must_return_power=True)
    return m, (0.0 if t is None else t.as_watts())


def _run_c04(case: dict[str, Any]) -> Verdict:
    v = Verdict()
    sysb, props = case["sys"], case["props"]
    sb = _sb(sysb)
    resend = case.get("resend", [])
    try:
        mat, target = _feed(sysb, props, resend)
    except Exception as exc:  # pylint: disable=broad-except
        v.fail(f"raised {type(exc).__name__}: {exc}")
        return v
    ref, info = _reference(sysb, props)
    if ref is None:
        v.labels.add("conflicting_set_skipped")
        return v
    v.labels.add("conflict_free")
    for k, flag in info.items():
        if flag:
            v.labels.add(k)
    if len(resend) >= 2:
        v.labels.add("proposals_resent")
        if len(props) >= 5:
            v.labels.add("five_or_more_proposals_with_resends")
    if Fr(target) not in ref:
        v.fail(f"target {target} is not the admissible value nearest to the deciding preference; reference accepts "
               f"{sorted(float(r) for r in ref)}" + (f" (proposals {resend} were sent again unchanged)" if resend else ""))
    edges = {sysb["lo"], sysb["hi"], sysb["el"], sysb["eu"], 0.0}
    for p in props:
        edges |= {x for x in (p["bl"], p["bu"]) if x is not None}
    if resend:
        # the same conflict-free set reached without the repeated (identical) proposals: its target is judged by the
        # same reference, and what each actor is told must be the same range (compared functionally: two different
        # answers for one set cannot both be "exactly the range in which its preference is adopted")
        plain, target_plain = _feed(sysb, props)
        if Fr(target_plain) not in ref:
            v.fail(f"target {target_plain} is not the admissible value nearest to the deciding preference; reference "
                   f"accepts {sorted(float(r) for r in ref)}")
        for p in props:
            r_plain, r_resent = plain.get_status(COMP, p["prio"], sb), mat.get_status(COMP, p["prio"], sb)
            for x in sorted(edges | {e + d for e in edges for d in (-1.0, 1.0)}):
                a1 = {q.as_watts() for q in r_plain.adjust_to_bounds(W(x)) if q is not None}
                a2 = {q.as_watts() for q in r_resent.adjust_to_bounds(W(x)) if q is not None}
                if a1 != a2:
                    v.fail(f"priority {p['prio']} is told {sorted(a1)} about {x} W, but {sorted(a2)} for the same proposal "
                           f"set after proposals {resend} were sent again unchanged (bounds {r_plain.bounds} / {r_resent.bounds})")
                    break
            else:
                continue
            break

    if case.get("light"):
        v.labels.add("light_case")
        v.nontrivial = len(props) >= 2 and (info["clamped_by_higher"] or info["excl_moves"])
        return v

    # report relation, per actor, with all lower-priority preferences removed
    for ai, actor in enumerate(props):
        stripped = [dict(q, pref=None) if q["prio"] < actor["prio"] else q for q in props]
        try:
            m2, _ = _feed(sysb, stripped, resend)
            report = m2.get_status(COMP, actor["prio"], sb)
        except Exception as exc:  # pylint: disable=broad-except
            v.fail(f"get_status raised {type(exc).__name__}: {exc}")
            return v
        rb = report.bounds
        probes = set(edges)
        if rb is not None:
            probes |= {rb.lower.as_watts(), rb.upper.as_watts()}
        probes |= {e + d for e in list(probes) for d in (-1.0, -0.5, 0.5, 1.0)}
        for x in sorted(probes):
            adj = report.adjust_to_bounds(W(x))
            adopted_says = adj[0] is not None and adj[1] is not None and adj[0].as_watts() == x and adj[1].as_watts() == x
            trial = [dict(q, pref=x) if i == ai else q for i, q in enumerate(stripped)]
            ref2, _ = _reference(sysb, trial)
            if ref2 is None:
                continue
            _, t2 = _feed(sysb, trial)
            adopted_is = t2 == x
            if adopted_says != adopted_is:
                v.fail(
                    f"actor prio {actor['prio']}: adjust_to_bounds({x}) = "
                    f"({None if adj[0] is None else adj[0].as_watts()}, {None if adj[1] is None else adj[1].as_watts()}) "
                    f"but proposing {x} gives target {t2} (reported bounds "
                    f"{None if rb is None else (rb.lower.as_watts(), rb.upper.as_watts())})"
                )
                break

    # null proposal is equivalent to no proposal
    null_prio = case["null_prio"]
    if all(p["prio"] != null_prio for p in props):
        withnull = props + [{"prio": null_prio, "pref": None, "bl": None, "bu": None}]
        m3, t3 = _feed(sysb, withnull)
        if t3 != target:
            v.fail(f"a proposal with neither power nor bounds at priority {null_prio} changed the target {target} -> {t3}")
        # the reports must be functionally identical: same values adopted unchanged, same
        # nearest usable values offered (the raw interval may be written differently, e.g.
        # [0, 10] with exclusion (0, 30) and [0, 0] describe the same usable set {0})
        for p in props:
            rep1 = mat.get_status(COMP, p["prio"], sb)
            rep3 = m3.get_status(COMP, p["prio"], sb)
            for x in sorted(edges | {e + d for e in edges for d in (-1.0, 1.0)}):
                a1 = {q.as_watts() for q in rep1.adjust_to_bounds(W(x)) if q is not None}
                a3 = {q.as_watts() for q in rep3.adjust_to_bounds(W(x)) if q is not None}
                if a1 != a3:
                    v.fail(f"a null proposal changed what priority {p['prio']} is told about {x} W: "
                           f"{sorted(a1)} -> {sorted(a3)} (bounds {rep1.bounds} -> {rep3.bounds})")
                    break

    v.nontrivial = len(props) >= 2 and (info["clamped_by_higher"] or info["excl_moves"])
    return v


def run_case(case: Any, pid: str) -> Verdict:
    if case["kind"] == "C03":
        if pid == "C03":
            return _run_c03(case)
        # C04 on a C03 history: not in C04's domain
        v = Verdict()
        v.labels.add("other_kind")
        return v
    if pid == "C04":
        return _run_c04(case)
    # a C04 set is also a (history-free) C03 input: envelope + all orders
    sysb, props = case["sys"], case["props"]
    ops = [["propose", i, p["pref"], p["bl"], p["bu"]] for i, p in enumerate(props)]
    return _run_c03({"kind": "C03", "sys": sysb, "actors": [[int(p["prio"]), f"s{i}"] for i, p in enumerate(props)],
                     "ops": ops, "perm_seed": 0})


def describe(case: Any) -> Any:
    return case
