"""C14 — power requests for a component group are applied one at a time, latest wins.

A real PowerDistributingActor runs with a probe ComponentManager whose distribute_power
records enter/exit and completes only when the harness says so (normally or by raising).
The trace of entered requests is compared with a two-slot (in flight, pending) reference
model per group after every quiescence barrier.
"""

from __future__ import annotations

import asyncio
from datetime import timedelta
from typing import Any
from unittest import mock

from hypothesis import strategies as st

from frequenz.channels import Broadcast
from frequenz.client.microgrid import ComponentCategory
from frequenz.quantities import Power
from frequenz.sdk.microgrid._power_distributing import power_distributing as pdm
from frequenz.sdk.microgrid._power_distributing.request import Request

from .. import world
from ..core import Verdict

IDS = ("C14",)
BUDGET = {"quick": 2500, "thorough": 12000}
SIZE_BOUNDS = {"quick": "1-3 disjoint groups, <= 25 schedule operations", "thorough": "1-3 groups, <= 60 operations"}
RULE = {
    "C14": (
        "Hypothesis-generated schedules over 1-3 disjoint component groups: request(group) carrying a running number, bursts "
        "of requests without a barrier in between, complete(group, ok | raise) acting on that group's in-flight call and "
        "optionally NOT followed by a barrier (so the next requests race with the completion callback), settle. "
        "The ComponentManager is a probe (substituted for BatteryManager inside the power_distributing module) whose "
        "distribute_power awaits a future the harness resolves. Oracle: per group a reference (in flight, pending) model; after "
        "every barrier the sequence of entered requests equals the model's (so a request for an idle group is entered at once "
        "whatever other groups are doing, only the latest pending request survives, and it starts as soon as the in-flight one "
        "finishes, also after an exception); never two calls of one group in flight; after the harness has released everything "
        "the last request issued per group has been entered. Non-trivial = >= 3 requests for one group arrive while one is in "
        "flight, or a completion by exception has a pending successor; distinct by SHA-1 of the canonical JSON case."
    )
}
ASSUMPTIONS = [
    "a completion not followed by a barrier may be handled before or after each request of the following burst: the model forks and the trace must match one branch",
    "the probe manager replaces BatteryManager inside the power_distributing module (unittest.mock)",
]
MIN_LABELS = {"C14": {"pending_overwritten_twice": 0.1, "exception_with_pending": 0.05, "multi_group": 0.4, "request_races_completion": 0.1}}

GROUPS = [frozenset({1, 2}), frozenset({3}), frozenset({4, 5, 6})]


def strategy(tier: str, pid: str = "C14") -> st.SearchStrategy[Any]:
    del pid
    max_ops = 25 if tier == "quick" else 60
    op = st.one_of(
        st.tuples(st.just("req"), st.integers(0, 2), st.booleans()).map(list),
        st.tuples(st.just("req"), st.integers(0, 2), st.booleans()).map(list),
        st.tuples(st.just("req"), st.integers(0, 2), st.just(True)).map(list),
        st.tuples(st.just("done"), st.integers(0, 2), st.sampled_from([True, True, False]), st.booleans()).map(list),
        st.just(["settle"]),
    )
    return st.fixed_dictionaries({"ngroups": st.integers(1, 3), "ops": st.lists(op, min_size=3, max_size=max_ops),
                                  # number of components in each of the three (disjoint) component groups
                                  "sizes": st.tuples(st.integers(0, 7), st.integers(1, 7), st.integers(1, 7)).map(list)})


def run_case(case: Any, pid: str) -> Verdict:
    del pid
    v = Verdict()
    ngroups = case["ngroups"]
    trace: list[tuple[str, int, float]] = []
    gates: dict[int, list[Any]] = {}
    sizes = case.get("sizes") or [len(g) for g in GROUPS]
    groups = [frozenset(range(10 * i + 1, 10 * i + 1 + sizes[i])) for i in range(3)]
    gidx = {groups[i]: i for i in range(3)}
    if max(sizes[:ngroups]) >= 5:
        v.labels.add("component_group_of_5_or_more")
    if sizes[0] == 0:
        v.labels.add("empty_component_group")
    active: dict[int, int] = {}

    class Probe:
        def __init__(self, *args: Any, **kwargs: Any) -> None:
            del args, kwargs

        def component_ids(self) -> set[int]:
            return set()

        async def start(self) -> None:
            return None

        async def stop(self) -> None:
            return None

        async def distribute_power(self, request: Request) -> None:
            g = gidx[frozenset(request.component_ids)]
            active[g] = active.get(g, 0) + 1
            trace.append(("enter", g, request.power.as_watts()))
            if active[g] > 1:
                trace.append(("overlap", g, request.power.as_watts()))
            fut = asyncio.get_running_loop().create_future()
            gates.setdefault(g, []).append(fut)
            try:
                await fut
            finally:
                active[g] -= 1
                trace.append(("exit", g, request.power.as_watts()))

    # Reference model, per group a set of candidate states (in flight, pending, completion due, entered so far).
    # A completion that is not followed by a barrier may be handled before or after each request of the
    # following burst; both orders are legal, so the model forks and the observed trace must match one branch.
    cands: dict[int, set[tuple[Any, Any, bool, tuple[float, ...]]]] = {g: {(None, None, False, ())} for g in range(3)}
    stats: dict[str, Any] = {"overwrites": {g: 0 for g in range(3)}, "exc_with_pending": False, "race": False, "max": 0}

    def entered(g: int) -> list[float]:
        return [val for ev, gg, val in trace if ev == "enter" and gg == g]

    def complete(c: tuple[Any, Any, bool, tuple[float, ...]]) -> tuple[Any, Any, bool, tuple[float, ...]]:
        infl, pend, _, exp = c
        if pend is not None:
            return (pend, None, False, exp + (pend,))
        return (None, None, False, exp)

    def request(c: tuple[Any, Any, bool, tuple[float, ...]], n: float) -> tuple[Any, Any, bool, tuple[float, ...]]:
        infl, pend, due, exp = c
        if infl is None:
            return (n, None, due, exp + (n,))
        return (infl, n, due, exp)

    async def scenario() -> None:
        requests: Any = Broadcast(name="requests")
        results: Any = Broadcast(name="results")
        status: Any = Broadcast(name="status")
        with mock.patch.object(pdm, "BatteryManager", Probe):
            actor = pdm.PowerDistributingActor(
                requests.new_receiver(limit=10000), results.new_sender(), status.new_sender(),
                api_power_request_timeout=timedelta(seconds=5), component_category=ComponentCategory.BATTERY)
            actor.start()
            await world.settle()
            sender = requests.new_sender()
            counter = 0
            last_issued: dict[int, float] = {}

            def barrier_compare(where: str) -> bool:
                if any(ev == "overlap" for ev, _, _ in trace):
                    v.fail(f"{where}: two distribute_power calls of one group in flight at once: {trace}")
                    return False
                for g in range(ngroups):
                    settled = {complete(c) if c[2] else c for c in cands[g]}
                    got = tuple(entered(g))
                    keep = {c for c in settled if c[3] == got}
                    if not keep:
                        v.fail(f"{where}: group {g} entered {list(got)}; the (in flight, pending) model allows "
                               f"{sorted(list(c[3]) for c in settled)}")
                        return False
                    cands[g] = keep
                return True

            for step, op in enumerate(case["ops"]):
                where = f"step {step} {op}"
                if op[0] == "req":
                    g = op[1] % ngroups
                    counter += 1
                    n = float(counter)
                    await sender.send(Request(power=Power.from_watts(n), component_ids=set(groups[g])))
                    last_issued[g] = n
                    nxt = set()
                    for c in cands[g]:
                        if c[2]:
                            stats["race"] = True
                            nxt.add(request(complete(c), n))
                        if c[0] is not None and c[1] is not None:
                            stats["overwrites"][g] += 1
                            stats["max"] = max(stats["max"], stats["overwrites"][g])
                        nxt.add(request(c, n))
                    cands[g] = nxt
                    if op[2]:
                        continue  # burst: no barrier
                elif op[0] == "done":
                    g = op[1] % ngroups
                    await world.settle()
                    if not barrier_compare(where + " (before completion)"):
                        return
                    if gates.get(g):
                        fut = gates[g].pop(0)
                        if op[2]:
                            fut.set_result(None)
                        else:
                            fut.set_exception(RuntimeError("generated distribution failure"))
                            if any(c[1] is not None for c in cands[g]):
                                stats["exc_with_pending"] = True
                        stats["overwrites"][g] = 0
                        cands[g] = {(c[0], c[1], True, c[3]) for c in cands[g]}
                        if len(op) > 3 and not op[3]:
                            continue  # no barrier: the following requests race with the completion callback
                await world.settle()
                if not barrier_compare(where):
                    return
                if not actor.is_running:
                    v.fail(f"{where}: the PowerDistributingActor stopped running")
                    return
            # bounded "eventually": release everything until quiescent
            for _ in range(200):
                await world.settle()
                if not barrier_compare("while releasing completions"):
                    return
                busy = [g for g in range(ngroups) if gates.get(g)]
                if not busy:
                    break
                for g in busy:
                    gates[g].pop(0).set_result(None)
                    cands[g] = {(c[0], c[1], True, c[3]) for c in cands[g]}
            await world.settle()
            if barrier_compare("after releasing every completion"):
                for g, val in last_issued.items():
                    if not entered(g) or entered(g)[-1] != val:
                        v.fail(f"the last request issued for group {g} ({val}) was never applied; entered {entered(g)}")
            await actor.stop()

    world.run(scenario)
    if stats["race"]:
        v.labels.add("request_races_completion")
    if stats.get("max", 0) >= 2:
        v.labels.add("pending_overwritten_twice")
    if stats["exc_with_pending"]:
        v.labels.add("exception_with_pending")
    if ngroups >= 2:
        v.labels.add("multi_group")
    v.nontrivial = bool(v.labels & {"pending_overwritten_twice", "exception_with_pending"})
    return v


def describe(case: Any) -> Any:
    return case
