"""C19 — formulas switch to fallback components when a primary meter fails.

Real path: a component graph with PV meters (primaries) in front of PV inverters
(fallbacks); the PV power formula is generated with fallback enabled and run for real,
the harness plays the resampling actor (it serves every subscription, including the ones
the lazily started fallback formulas make) and owns validity scripts, delivery order,
fallback delivery lag and the closing of a primary stream.
"""

from __future__ import annotations

import asyncio
from datetime import timedelta
from typing import Any
from unittest import mock

from hypothesis import strategies as st

import frequenz.sdk.microgrid  # noqa: F401  (must be imported before the formula generators: import cycle)
from frequenz.channels import Broadcast, Receiver, ReceiverError
from frequenz.client.microgrid import Connection
from frequenz.quantities import Quantity
from frequenz.sdk._internal._channels import ChannelRegistry
from frequenz.sdk.timeseries import Sample
from frequenz.sdk.timeseries.formula_engine._formula_generators import (
    BatteryPowerFormula,
    EVChargerPowerFormula,
    FormulaGeneratorConfig,
    PVPowerFormula,
)

from frequenz.sdk.timeseries.formula_engine._formula_generators._fallback_formula_metric_fetcher import (
    FallbackFormulaMetricFetcher,
)

from .. import fakes, world
from ..core import Verdict

IDS = ("C19",)
BUDGET = {"quick": 2500, "thorough": 8000}
SIZE_BOUNDS = {"quick": "1-2 terms with 1-2 fallback inverters each, 6-25 ticks", "thorough": "1-2 terms, 6-60 ticks"}
RULE = {
    "C19": (
        "Hypothesis-generated scripts for a real generated power formula with fallback (PV or battery family; the EV-charger formula has no fallback terms): graph "
        "grid -> meter -> 1-2 dedicated meters (primary of a term) -> 1-2 PV inverters / battery inverters with a battery "
        "each (fallbacks); per tick every primary and every inverter is valid or missing; the "
        "fallback samples of a tick are delivered before or after the primary sample or up to 2 ticks late; optionally one "
        "primary stream is closed at a tick, and in a third of the cases 1-2 (term, tick) pairs are drawn at which the primary's "
        "receive() raises a ReceiverError that is not a stop instead of delivering that tick's sample (the registry hands the "
        "formula receivers wrapped by the harness; the stream continues afterwards); in a quarter of the cases the same is done "
        "to 1-2 (term, tick) pairs of the term's *fallback* fetcher (its sample of that tick is replaced by the error). The harness serves every ComponentMetricRequest (also those of the lazily started "
        "fallback formulas) from the tick after it is made. Primary of term j carries (k+1)*10^(5j), inverter i carries that "
        "*10*(i+1), so the source and the tick of every output are identifiable. Oracle per output timestamp t: each term is "
        "its primary if valid (delivered, not closed, not raising at t), else the sum of its valid fallback inverters if the fallback was started before t and one is "
        "valid, else unconstrained; the tick at which a term's fallback is started (first invalid primary; for a closed stream "
        "that tick and the next) may be None or absent; outside those ticks every timestamp has exactly one output. "
        "Non-trivial = a primary fails, recovers and fails again with its fallback valid, or fallback delivery lags, or a "
        "primary closes or raises; distinct by SHA-1 of the canonical JSON case."
    )
}
ASSUMPTIONS = [
    "the harness plays the resampling actor: a new subscription is served from the next tick on, in timestamp order",
    "primary samples are delivered on time (only fallback delivery lags)",
    "when neither source of a term is valid at a tick nothing is demanded of that tick's value",
]
MIN_LABELS = {"C19": {"fail_recover_fail": 0.1, "fallback_lag": 0.3, "primary_closed": 0.1, "two_terms": 0.3, "family_battery": 0.1,
                      "primary_transient_error": 0.15, "transient_error_while_fallback_running_then_primary_continues": 0.03,
                      "fallback_transient_error": 0.08, "fallback_needed_again_after_its_transient_error": 0.04}}


class _TransientError:
    """Marker the harness sends on a primary channel: the receiver raises a non-stop ReceiverError for it."""


_TRANSIENT = _TransientError()


class _FlakyReceiver(Receiver[Any]):
    """Forwards the wrapped receiver; raises a (transient) ReceiverError instead of delivering the marker."""

    def __init__(self, inner: Receiver[Any]) -> None:
        self._inner = inner

    async def ready(self) -> bool:
        return await self._inner.ready()

    def consume(self) -> Any:
        msg = self._inner.consume()
        if msg is _TRANSIENT:
            raise ReceiverError("transient receive failure injected by the harness", self)
        return msg


class _TickFlaky(Receiver[Any]):
    """Wraps a fallback fetcher's receiver: the sample of a listed tick is replaced by a transient ReceiverError."""

    def __init__(self, inner: Receiver[Any], ticks: set[int], hit: set[int]) -> None:
        self._inner = inner
        self._ticks = ticks
        self._hit = hit

    async def ready(self) -> bool:
        return await self._inner.ready()

    def consume(self) -> Any:
        msg = self._inner.consume()
        k = round((msg.timestamp - world.T0).total_seconds())
        if k in self._ticks and k not in self._hit:
            self._hit.add(k)
            raise ReceiverError("transient fallback failure injected by the harness", self)
        return msg


class _FlakyChannel:
    def __init__(self, chan: Any) -> None:
        self._chan = chan

    def new_receiver(self, **kwargs: Any) -> Any:
        return _FlakyReceiver(self._chan.new_receiver(**kwargs))

    def __getattr__(self, name: str) -> Any:
        return getattr(self._chan, name)


class _FlakyRegistry(ChannelRegistry):
    """A ChannelRegistry whose channels hand out receivers that can be made to raise once."""

    def get_or_create(self, message_type: Any, key: str) -> Any:
        return _FlakyChannel(super().get_or_create(message_type, key))


@st.composite
def _case(draw: Any, max_ticks: int) -> dict[str, Any]:
    nterms = draw(st.integers(1, 2))
    ninv = [draw(st.integers(1, 2)) for _ in range(nterms)]
    nticks = draw(st.integers(6, max_ticks))
    valid = st.sampled_from([True, True, True, False])
    script = []
    for _ in range(nticks):
        script.append([[draw(valid)] + [draw(st.sampled_from([True, True, True, True, False])) for _ in range(ninv[j])]
                       for j in range(nterms)])
    close = None
    if draw(st.integers(0, 3)) == 0:
        close = [draw(st.integers(0, nterms - 1)), draw(st.integers(1, nticks - 1))]
    errors = []
    if draw(st.integers(0, 2)) == 0:
        # the primary's receive() raises a ReceiverError that is not a stop, once, instead of delivering the tick's sample
        errors = draw(st.lists(st.tuples(st.integers(0, nterms - 1), st.integers(0, nticks - 1)).map(list),
                               min_size=1, max_size=2, unique_by=tuple))
    fb_errors = []
    if draw(st.integers(0, 3)) == 0:
        # the term's fallback fetcher raises a ReceiverError that is not a stop instead of delivering its sample of that tick
        fb_errors = draw(st.lists(st.tuples(st.integers(0, nterms - 1), st.integers(1, nticks - 1)).map(list),
                                  min_size=1, max_size=2, unique_by=tuple))
    if draw(st.integers(0, 9)) == 0:
        # scripted: a term fails early, and well after its fallback took over the fallback raises, then the primary
        j, t0 = draw(st.integers(0, nterms - 1)), draw(st.integers(0, 2))
        k = t0 + draw(st.integers(6, 8))
        if k + 3 <= nticks:
            script[t0][j][0] = False
            fb_errors, errors = [[j, k]], [[j, k + 1]]
    return {
        "fb_errors": fb_errors,
        "errors": errors,
        "family": draw(st.sampled_from(["pv", "pv", "battery"])),
        "ninv": ninv,
        "script": script,
        "lag": [draw(st.sampled_from([0, 0, 1, 2])) for _ in range(nterms)],
        "fb_first": draw(st.booleans()),
        "close": close,
        # a freshly subscribed fallback stream starts with the tick of the subscription or one or two ticks later
        "fb_delay": [draw(st.sampled_from([0, 0, 1, 2])) for _ in range(nterms)],
    }


def strategy(tier: str, pid: str = "C19") -> st.SearchStrategy[Any]:
    del pid
    return _case(25 if tier == "quick" else 60)


def _primary_val(j: int, k: int) -> float:
    return float((k + 1) * 10 ** (5 * j))


def _inv_val(j: int, i: int, k: int) -> float:
    return _primary_val(j, k) * 10.0 * (i + 1)


def run_case(case: Any, pid: str) -> Verdict:
    del pid
    v = Verdict()
    ninv, lag = case["ninv"], case["lag"]
    fb_delay = case.get("fb_delay") or [0] * len(ninv)
    nterms, nticks = len(ninv), len(case["script"])
    # three more ticks with everything valid are fed after the scripted ones and not judged: an output that the
    # scripted faults delayed by a tick is flushed instead of looking lost at the end of the run
    FLUSH = 3
    script = list(case["script"]) + [[[True] * (1 + ninv[j]) for j in range(nterms)] for _ in range(FLUSH)]
    nfeed = nticks + FLUSH
    close = case["close"]
    errors = {(j, k) for j, k in case.get("errors", [])}
    fb_errors = {(j, k) for j, k in case.get("fb_errors", [])}
    fb_hit: dict[int, set[int]] = {}
    meter_id = [10 * (j + 1) for j in range(nterms)]
    inv_id = [[10 * (j + 1) + i + 1 for i in range(ninv[j])] for j in range(nterms)]
    term_of: dict[int, tuple[int, int | None]] = {}
    for j in range(nterms):
        term_of[meter_id[j]] = (j, None)
        for i, cid in enumerate(inv_id[j]):
            term_of[cid] = (j, i)
    outputs: list[Any] = []
    info: dict[str, Any] = {}

    async def scenario() -> None:
        comps = {fakes.grid(1), fakes.meter(2)}
        conns = {Connection(1, 2)}
        family = case.get("family", "pv")
        device_ids: set[int] = set()
        for j in range(nterms):
            comps.add(fakes.meter(meter_id[j]))
            conns.add(Connection(2, meter_id[j]))
            for cid in inv_id[j]:
                conns.add(Connection(meter_id[j], cid))
                if family == "pv":
                    comps.add(fakes.pv_inverter(cid))
                    device_ids.add(cid)
                elif family == "ev":
                    comps.add(fakes.ev_charger(cid))
                    device_ids.add(cid)
                else:
                    comps.add(fakes.bat_inverter(cid))
                    comps.add(fakes.battery(100 + cid))
                    conns.add(Connection(cid, 100 + cid))
                    device_ids.add(100 + cid)
        api = fakes.FakeApi(comps, conns)
        orig_start = FallbackFormulaMetricFetcher.start

        def flaky_start(fetcher: Any) -> None:
            orig_start(fetcher)
            ids = fetcher._formula_generator._config.component_ids or set()  # pylint: disable=protected-access
            terms = {term_of[c if c in term_of else c - 100][0] for c in ids if c in term_of or c - 100 in term_of}
            if len(terms) == 1:
                j_fb = terms.pop()
                ticks = {k for (jj, k) in fb_errors if jj == j_fb}
                if ticks:
                    fetcher._receiver = _TickFlaky(fetcher._receiver, ticks, fb_hit.setdefault(j_fb, set()))  # pylint: disable=protected-access

        with fakes.connection(fakes.build_graph(comps, conns), api), \
                mock.patch.object(FallbackFormulaMetricFetcher, "start", flaky_start):
            registry = _FlakyRegistry(name="c19")
            sub_chan: Any = Broadcast(name="c19-sub")
            sub_rx = sub_chan.new_receiver(limit=10000)
            gen_cls = {"pv": PVPowerFormula, "ev": EVChargerPowerFormula, "battery": BatteryPowerFormula}[family]
            engine = gen_cls("ns", registry, sub_chan.new_sender(),
                             FormulaGeneratorConfig(component_ids=None if family == "pv" else device_ids,
                                                    allow_fallback=True)).generate()
            info["formula"] = str(engine)
            out_rx = engine.new_receiver(max_size=10000)
            await world.settle(2)
            subs: dict[str, dict[str, Any]] = {}  # channel name -> {cid, start, next, fallback, sender, closed}

            async def take_subscriptions(tick: int) -> None:
                while True:
                    try:
                        req = await asyncio.wait_for(sub_rx.receive(), timeout=1e-6)
                    except asyncio.TimeoutError:
                        return
                    name = req.get_channel_name()
                    if name in subs or req.component_id not in term_of:
                        continue
                    if "_fallback_" in req.namespace:
                        j_fb = term_of[req.component_id][0]
                        first = tick + fb_delay[j_fb]
                        info.setdefault("fb_first_tick", {}).setdefault(j_fb, first)
                    else:
                        first = tick
                    subs[name] = {"cid": req.component_id, "next": first, "fallback": "_fallback_" in req.namespace,
                                  "sender": registry.get_or_create(Sample[Quantity], name).new_sender(), "closed": False,
                                  "name": name}

            async def send(sub: dict[str, Any], k: int) -> None:
                j, i = term_of[sub["cid"]]
                row = script[k][j]
                if i is None and (j, k) in errors:
                    await sub["sender"].send(_TRANSIENT)
                    return
                if i is None:
                    value = _primary_val(j, k) if row[0] else None
                else:
                    value = _inv_val(j, i, k) if row[1 + i] else None
                await sub["sender"].send(Sample(world.T0 + timedelta(seconds=k), None if value is None else Quantity(value)))

            for k in range(nfeed + 3):
                await take_subscriptions(k)
                primaries = [s for s in subs.values() if not s["fallback"]]
                fallbacks = [s for s in subs.values() if s["fallback"]]
                groups = [fallbacks, primaries] if case["fb_first"] else [primaries, fallbacks]
                for grp in groups:
                    for sub in sorted(grp, key=lambda s: s["name"]):
                        j, i = term_of[sub["cid"]]
                        if sub["fallback"]:
                            upto = k - lag[j]
                        else:
                            upto = k
                        if not sub["fallback"] and close is not None and close[0] == j and i is None and k >= close[1]:
                            if not sub["closed"]:
                                sub["closed"] = True
                                await registry.get_or_create(Sample[Quantity], sub["name"]).close()
                            continue
                        while sub["next"] <= min(upto, nfeed - 1):
                            await send(sub, sub["next"])
                            sub["next"] += 1
                await world.settle(3)
            while True:
                try:
                    outputs.append(await asyncio.wait_for(out_rx.receive(), timeout=1e-6))
                except asyncio.TimeoutError:
                    break

    try:
        world.run(scenario, wall_limit=20.0)
    except world.Livelock:
        v.fail("the formula engine spun without yielding to the event loop (no further output is possible); "
               f"script {script}, close {close}")
        return v

    # expectation
    started: list[int | None] = [None] * nterms   # tick whose evaluation starts the term's fallback
    fb_from: list[int | None] = [None] * nterms   # first tick the fallback stream carries (served by the harness)
    blind: set[int] = set()
    for j in range(nterms):
        for k in range(nticks):
            closed_now = close is not None and close[0] == j and k >= close[1]
            if closed_now or not script[k][j][0] or (j, k) in errors:
                started[j] = k
                break
        if started[j] is None:
            continue
        fb_from[j] = info.get("fb_first_tick", {}).get(j)
        if fb_from[j] is None:
            if started[j] < nticks - 1:
                v.fail(f"term {j}: primary invalid at tick {started[j]} but the fallback formula never subscribed to its components")
            fb_from[j] = nticks
        # bounded start-up delay: the fallback stream starts at most (max delivery lag + 2) ticks after the failure
        if fb_from[j] - started[j] > max(lag) + 3 + fb_delay[j] and fb_from[j] < nticks:
            v.fail(f"term {j}: fallback stream starts at tick {fb_from[j]}, {fb_from[j] - started[j]} ticks after the first "
                   f"invalid primary sample (tick {started[j]})")
        blind |= set(range(started[j], fb_from[j]))
        if close is not None and close[0] == j:
            blind |= {close[1], close[1] + 1}
            # closed before the fallback stream delivers: the first round the error path serves from the fallback is the
            # one that re-aligns the other streams (it is dropped when they are behind), like the round of the close
            first = max(close[1], min(fb_from[j], nticks))
            blind |= {first, first + 1}
        # a raising primary before the fallback stream delivers drops the round (like a closed stream); when it
        # raises at the very tick of the first fallback sample, that sample is already buffered and the error
        # path reads the one after it, so the term runs one tick ahead until the next round re-aligns it:
        # still start-up (bounded: two ticks after the error), not judged.  A further error while the term is
        # still running ahead drops that re-aligning round and postpones it by the same two ticks (during
        # which the term serves the valid fallback value of the right timestamp), so the windows chain.
        ahead_until = fb_from[j]
        # ticks of rounds dropped because both sources of this term raised (see below): a re-aligning round as well
        dropped = {t for (je, ke) in fb_errors if je == j and (je, ke) in errors for t in (ke, ke + 1)}
        for ke in sorted(ke for (je, ke) in errors if je == j):
            if ke <= ahead_until or ke in dropped:
                # the error path waits for the fallback's next sample, which can lie ahead (a stream that starts late)
                upto = max(ke, min(fb_from[j], nticks)) + 2
                blind |= set(range(ke, upto + 1))
                ahead_until = upto
    for (je, ke) in fb_errors:
        # both sources of a term raise at the same tick (primary closed or raising, fallback raising): the round is
        # dropped and the next one re-synchronises, like for a closed stream without a delivering fallback
        if (je, ke) in errors or (close is not None and close[0] == je and ke >= close[1]):
            blind |= {ke, ke + 1}
    by_tick: dict[int, list[Any]] = {}
    for s in outputs:
        k = (s.timestamp - world.T0).total_seconds()
        if k != int(k) or not 0 <= k < nfeed:
            v.fail(f"output stamped {s.timestamp} is not one of the {nfeed} input timestamps")
            continue
        by_tick.setdefault(int(k), []).append(s)
    # order and multiplicity are judged outside the unjudged windows only: while a term is being aligned with a
    # fallback stream whose first sample lies ahead, a tick can be emitted from the fallback and again from the primary
    order = [k for k in (int((s.timestamp - world.T0).total_seconds()) for s in outputs) if k not in blind]
    if order != sorted(order):
        v.fail(f"outputs are not in timestamp order: {order}")
    for k in range(nticks):
        outs = by_tick.get(k, [])
        if k in blind:
            continue
        if len(outs) > 1:
            v.fail(f"tick {k}: {len(outs)} outputs")
            continue
        expected: float | None = 0.0
        for j in range(nterms):
            row = script[k][j]
            closed_now = (close is not None and close[0] == j and k >= close[1]) or (j, k) in errors
            if row[0] and not closed_now:
                expected = None if expected is None else expected + _primary_val(j, k)
            elif fb_from[j] is not None and fb_from[j] <= k and any(row[1:]) and (j, k) not in fb_errors:
                expected = None if expected is None else expected + sum(
                    _inv_val(j, i, k) for i in range(ninv[j]) if row[1 + i])
            else:
                expected = None  # neither source valid (or not yet started): unconstrained
        if expected is None:
            continue
        if not outs:
            v.fail(f"tick {k}: no output, expected {expected} (script {script[k]}, formula {info.get('formula')})")
            continue
        got = None if outs[0].value is None else outs[0].value.as_watts()
        if got is None or abs(got - expected) > 1e-6:
            v.fail(f"tick {k}: output {got}, expected {expected} = per term the primary if valid else the sum of its valid "
                   f"fallback inverters (script row {script[k]}, fallback started at {started}, lag {lag}, close {close})")
    # classification
    for j in range(nterms):
        prim = [script[k][j][0] for k in range(nticks)]
        seen_fail = seen_recover = False
        for k, ok in enumerate(prim):
            if not ok and not seen_fail:
                seen_fail = True
            elif ok and seen_fail:
                seen_recover = True
            elif not ok and seen_recover and any(script[k][j][1:]):
                v.labels.add("fail_recover_fail")
    if any(lag[j] > 0 and started[j] is not None for j in range(nterms)):
        v.labels.add("fallback_lag")
    if close is not None:
        v.labels.add("primary_closed")
    if errors:
        v.labels.add("primary_transient_error")
    if any(fb_hit.values()):
        v.labels.add("fallback_transient_error")
        for j, hit in fb_hit.items():
            if hit and any(not script[k][j][0] and any(script[k][j][1:]) for k in range(max(hit) + 1, nticks)):
                v.labels.add("fallback_needed_again_after_its_transient_error")
    if any(fb_from[j] is not None and fb_from[j] < k < nticks - 1 and (close is None or close[0] != j or k < close[1])
           for (j, k) in errors):
        v.labels.add("transient_error_while_fallback_running_then_primary_continues")
    if nterms == 2:
        v.labels.add("two_terms")
    v.labels.add("family_" + case.get("family", "pv"))
    if any(s is not None for s in started):
        v.labels.add("fallback_started")
    v.nontrivial = bool(v.labels & {"fail_recover_fail", "fallback_lag", "primary_closed", "primary_transient_error"})
    return v


def describe(case: Any) -> Any:
    return case
