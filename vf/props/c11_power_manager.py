"""C11 — distributed power = regular target + operating-point target, within bounds.

A real PowerManagingActor is driven by generated histories of proposals (regular and
operating-point actors), system-bounds updates, distribution results and clock advances;
the system-bounds stream is a harness channel injected where the actor asks the data
pipeline for a battery pool.  Requests are judged against the reports the actor itself
publishes.
"""

from __future__ import annotations

import asyncio
from typing import Any
from unittest import mock

from hypothesis import strategies as st

from frequenz.channels import Broadcast
from frequenz.client.microgrid import ComponentCategory
from frequenz.quantities import Power
from frequenz.sdk._internal._channels import ChannelRegistry
from frequenz.sdk.microgrid import _power_distributing as pd
from frequenz.sdk.microgrid._power_distributing.result import PowerBounds
from frequenz.sdk.microgrid._power_managing import _power_managing_actor as pma
from frequenz.sdk.microgrid._power_managing._base_classes import Proposal, ReportRequest, _Report
from frequenz.sdk.timeseries._base_types import Bounds, SystemBounds

from .. import world
from ..core import Verdict

IDS = ("C11",)
BUDGET = {"quick": 3000, "thorough": 10000}
SIZE_BOUNDS = {
    "quick": "1 component group (25%: 2 disjoint groups), 1-3 regular and 1-2 operating-point actors, <= 15 events",
    "thorough": "1-2 groups, <= 40 events",
}
RULE = {
    "C11": (
        "Hypothesis-generated event histories for a real PowerManagingActor: propose(actor, power|None, lower|None, upper|None) "
        "from regular and operating-point actors at distinct priorities, system-bounds updates that widen / shrink / shift "
        "(exclusion bounds zero, or non-zero in a second mode), distribution results Success / PartialFailure / Error / "
        "OutOfBounds echoing the last request, clock advances (1 s timer ticks, > 60 s expires proposals). After every event "
        "and a quiescence barrier: every request sent for a group in that step lies within the latest inclusion bounds sent, "
        "and the last one equals (latest target reported to the regular subscribers) + (latest target reported to the "
        "operating-point subscribers), None counting as 0. Non-trivial = the history has a step in which exactly one of the "
        "two targets changes, or a bounds update between two proposals; distinct by SHA-1 of the canonical JSON case."
    )
}
ASSUMPTIONS = [
    "the system-bounds stream is a harness channel (new_battery_pool is patched inside the actor's module)",
    "distinct priorities over all actors of a group (the report channel name is keyed by priority only)",
    "tolerance 1e-6 W",
]
MIN_LABELS = {"C11": {"one_target_changes": 0.3, "bounds_between_proposals": 0.3, "op_proposal": 0.5, "expiry": 0.05}}

GROUPS = [frozenset({1, 2}), frozenset({3})]
VALS = [None, -150.0, -60.0, -20.0, -5.0, 0.0, 5.0, 20.0, 60.0, 150.0, 500.0]
LOHI = [0.0, 50.0, 100.0, 200.0, 1000.0]


@st.composite
def _case(draw: Any, max_ops: int) -> dict[str, Any]:
    ngroups = 2 if draw(st.integers(0, 3)) == 0 else 1
    actors = []
    prio = 0
    for g in range(ngroups):
        for _ in range(draw(st.integers(1, 3))):
            prio += 1
            actors.append([g, False, prio])
        for _ in range(draw(st.integers(1, 2))):
            prio += 1
            actors.append([g, True, prio])
    order = draw(st.permutations(list(range(1, prio + 1))))
    for a, p in zip(actors, order):
        a[2] = p
    excl_mode = draw(st.integers(0, 4)) <= 1
    ops: list[Any] = []
    for g in range(ngroups):
        ops.append(["bounds", g, -draw(st.sampled_from(LOHI)) + 0.0, draw(st.sampled_from(LOHI)), 0.0, 0.0])
    for _ in range(draw(st.integers(3, max_ops))):
        kind = draw(st.sampled_from(["prop", "prop", "prop", "prop", "bounds", "bounds", "res", "adv"]))
        if kind == "prop":
            bl = draw(st.sampled_from([None, None, None, -100.0, -20.0, 0.0]))
            bu = draw(st.sampled_from([None, None, None, 0.0, 20.0, 100.0]))
            ops.append(["prop", draw(st.integers(0, len(actors) - 1)), draw(st.sampled_from(VALS)), bl, bu])
        elif kind == "bounds":
            lo, hi = -draw(st.sampled_from(LOHI)) + 0.0, draw(st.sampled_from(LOHI))
            el = eu = 0.0
            if excl_mode:
                el = -min(-lo, draw(st.sampled_from([0.0, 10.0, 30.0, 50.0]))) + 0.0
                eu = min(hi, draw(st.sampled_from([0.0, 10.0, 30.0, 50.0])))
            ops.append(["bounds", draw(st.integers(0, ngroups - 1)), lo, hi, el, eu])
        elif kind == "res":
            # the result answers the latest request of the group, or (stale result) one sent 1-2 requests earlier
            ops.append(["res", draw(st.integers(0, ngroups - 1)),
                        draw(st.sampled_from(["success", "partial", "partial", "error", "oob"])),
                        draw(st.sampled_from([0, 0, 0, 1, 1, 2]))])
        else:
            ops.append(["adv", draw(st.sampled_from([0.5, 1.0, 2.0, 30.0, 59.0, 61.0, 120.0]))])
    if excl_mode and draw(st.booleans()):
        # scripted opening: asymmetric exclusion zone, a small regular preference inside it, an operating-point
        # preference that saturates at a system bound (the shifted bounds of the regular group then end at 0)
        reg = next(i for i, a in enumerate(actors) if a[0] == 0 and not a[1])
        opa = next(i for i, a in enumerate(actors) if a[0] == 0 and a[1])
        sign = draw(st.sampled_from([1.0, -1.0]))
        el, eu = draw(st.sampled_from([(-50.0, 10.0), (-10.0, 50.0), (-30.0, 10.0), (-10.0, 30.0)]))
        opening = [["bounds", 0, -100.0, 100.0, el, eu], ["prop", reg, draw(st.sampled_from([-5.0, 5.0])), None, None],
                   ["prop", opa, sign * draw(st.sampled_from([100.0, 150.0, 500.0])), None, None]]
        if draw(st.booleans()):
            # second scripted opening: a preference inside the exclusion zone, then a bounds update that shrinks the zone
            # (or moves the inclusion bounds) so that the preference becomes admissible
            pref = draw(st.sampled_from([-20.0, 20.0, 5.0, -5.0]))
            opening = [["bounds", 0, -200.0, 200.0, -30.0, 30.0], ["prop", reg, pref, None, None],
                       ["bounds", 0, -200.0, 200.0, *draw(st.sampled_from([(-10.0, 10.0), (0.0, 0.0), (-3.0, 3.0)]))]]
        ops = ops[:ngroups] + opening + ops[ngroups:]
    return {"ngroups": ngroups, "actors": actors, "ops": ops}


def strategy(tier: str, pid: str = "C11") -> st.SearchStrategy[Any]:
    del pid
    return _case(15 if tier == "quick" else 40)


def run_case(case: Any, pid: str) -> Verdict:
    del pid
    v = Verdict()
    ngroups, actors = case["ngroups"], case["actors"]
    flags = {"one": False, "bounds_between": False}

    async def scenario() -> None:
        loop = asyncio.get_running_loop()
        bounds_chans: dict[frozenset[int], Any] = {
            GROUPS[g]: Broadcast(name=f"bounds{g}", resend_latest=True) for g in range(ngroups)}

        class _FakePool:
            def __init__(self, component_ids: frozenset[int]) -> None:
                chan = bounds_chans[frozenset(component_ids)]

                class _Fetcher:
                    def new_receiver(self, *args: Any, **kwargs: Any) -> Any:
                        del args, kwargs
                        return chan.new_receiver()

                self._system_power_bounds = _Fetcher()

        proposals: Any = Broadcast(name="proposals")
        subs: Any = Broadcast(name="subs")
        requests: Any = Broadcast(name="requests")
        results: Any = Broadcast(name="results")
        registry = ChannelRegistry(name="c11")
        req_rx = requests.new_receiver(limit=10000)
        with mock.patch.object(pma._data_pipeline, "new_battery_pool",  # pylint: disable=protected-access
                               lambda priority, component_ids, **kw: _FakePool(component_ids)):
            actor = pma.PowerManagingActor(
                proposals.new_receiver(limit=1000), subs.new_receiver(limit=1000), requests.new_sender(),
                results.new_receiver(limit=1000), registry, component_category=ComponentCategory.BATTERY)
            actor.start()
            await world.settle()
            report_rx: dict[tuple[int, bool], list[Any]] = {}
            for g, is_op, prio in actors:
                rr = ReportRequest(source_id=f"a{prio}", component_ids=GROUPS[g], priority=prio, set_operating_point=is_op)
                rx = registry.get_or_create(_Report, rr.get_channel_name()).new_receiver(limit=10000)
                report_rx.setdefault((g, is_op), []).append(rx)
                await subs.new_sender().send(rr)
            await world.settle()
            prop_tx, res_tx = proposals.new_sender(), results.new_sender()
            bounds_tx = {g: bounds_chans[GROUPS[g]].new_sender() for g in range(ngroups)}
            latest_bounds: dict[int, tuple[float, float]] = {}
            reported: dict[tuple[int, bool], float | None] = {}
            last_request: dict[int, Any] = {}
            request_history: dict[int, list[Any]] = {}
            last_kind: dict[int, str] = {}
            last_prop: dict[int, tuple[float, Any, Any, Any]] = {}

            async def drain_async(rx: Any) -> list[Any]:
                out = []
                while True:
                    try:
                        out.append(await asyncio.wait_for(rx.receive(), timeout=1e-6))
                    except asyncio.TimeoutError:
                        return out

            for step, op in enumerate(case["ops"]):
                where = f"step {step} {op}"
                if op[0] == "bounds":
                    _, g, lo, hi, el, eu = op
                    sb = SystemBounds(timestamp=world.now(),
                                      inclusion_bounds=Bounds(Power.from_watts(lo), Power.from_watts(hi)),
                                      exclusion_bounds=Bounds(Power.from_watts(el), Power.from_watts(eu)))
                    await bounds_tx[g].send(sb)
                    latest_bounds[g] = (lo, hi)
                    if last_kind.get(g) == "prop":
                        last_kind[g] = "prop-bounds"
                elif op[0] == "prop":
                    _, ai, power, bl, bu = op
                    g, is_op, prio = actors[ai]
                    if bl is not None and bu is not None and bl > bu:
                        bl, bu = bu, bl
                    await prop_tx.send(Proposal(
                        source_id=f"a{prio}", preferred_power=None if power is None else Power.from_watts(power),
                        bounds=Bounds(None if bl is None else Power.from_watts(bl), None if bu is None else Power.from_watts(bu)),
                        component_ids=GROUPS[g], priority=prio, creation_time=loop.time(), set_operating_point=is_op))
                    last_prop[ai] = (loop.time(), power, bl, bu)
                    if is_op:
                        v.labels.add("op_proposal")
                    if last_kind.get(g) == "prop-bounds":
                        flags["bounds_between"] = True
                    last_kind[g] = "prop"
                elif op[0] == "res":
                    _, g, kind = op[:3]
                    back = op[3] if len(op) > 3 else 0
                    hist = request_history.get(g, [])
                    if not hist:
                        continue
                    req = hist[max(0, len(hist) - 1 - back)]
                    if req is not hist[-1]:
                        v.labels.add("stale_result")
                        if kind == "partial":
                            v.labels.add("stale_partial_failure")
                    zero = Power.zero()
                    if kind == "success":
                        res: Any = pd.Success(request=req, succeeded_power=req.power, succeeded_components=set(req.component_ids),
                                              excess_power=zero)
                    elif kind == "partial":
                        res = pd.PartialFailure(request=req, succeeded_power=zero, succeeded_components=set(),
                                                failed_power=req.power, failed_components=set(req.component_ids),
                                                excess_power=zero)
                    elif kind == "error":
                        res = pd.Error(request=req, msg="generated")
                    else:
                        res = pd.OutOfBounds(request=req, bounds=PowerBounds(0.0, 0.0, 0.0, 0.0))
                    await res_tx.send(res)
                    v.labels.add("result_" + kind)
                else:
                    await asyncio.sleep(op[1])
                    if op[1] > 60:
                        v.labels.add("expiry")
                await world.settle()
                if not actor.is_running:
                    v.fail(f"{where}: the PowerManagingActor stopped running")
                    return
                sent = await drain_async(req_rx)
                before = dict(reported)
                for key, rxs in report_rx.items():
                    for rx in rxs:
                        for rep in await drain_async(rx):
                            reported[key] = None if rep.target_power is None else rep.target_power.as_watts()
                for g in range(ngroups):
                    mine = [r for r in sent if frozenset(r.component_ids) == GROUPS[g]]
                    if not mine:
                        continue
                    last_request[g] = mine[-1]
                    request_history.setdefault(g, []).extend(mine)
                    lo, hi = latest_bounds.get(g, (0.0, 0.0))
                    for r in mine:
                        pw = r.power.as_watts()
                        if not lo - 1e-6 <= pw <= hi + 1e-6:
                            v.fail(f"{where}: request {pw} W for group {g} is outside the latest inclusion bounds [{lo}, {hi}]")
                    t_reg = reported.get((g, False)) or 0.0
                    t_op = reported.get((g, True)) or 0.0
                    pw = mine[-1].power.as_watts()
                    if abs(pw - (t_reg + t_op)) > 1e-6:
                        v.fail(f"{where}: request {pw} W for group {g} != reported regular target {reported.get((g, False))} "
                               f"+ reported operating-point target {reported.get((g, True))}")
                    reg_changed = before.get((g, False)) != reported.get((g, False))
                    op_changed = before.get((g, True)) != reported.get((g, True))
                    if reg_changed != op_changed:
                        flags["one"] = True
                # the request left standing must still describe the state at quiescence: a bounds update
                # that alters a target (or pushes the standing power out of bounds) must have re-sent it
                for g, req in last_request.items():
                    if op[0] != "bounds" or op[1] != g:
                        continue
                    pw = req.power.as_watts()
                    lo, hi = latest_bounds.get(g, (0.0, 0.0))
                    t_reg = reported.get((g, False)) or 0.0
                    t_op = reported.get((g, True)) or 0.0
                    if not lo - 1e-6 <= pw <= hi + 1e-6:
                        v.fail(f"{where}: after the bounds update the standing request {pw} W of group {g} is outside "
                               f"[{lo}, {hi}] and was not replaced")
                    elif abs(pw - (t_reg + t_op)) > 1e-6:
                        v.fail(f"{where}: after the bounds update the standing request {pw} W of group {g} != reported "
                               f"targets {reported.get((g, False))} + {reported.get((g, True))}")
                if v.violations:
                    break
            if not v.violations and last_prop:
                # idempotence at the end: every live actor sends its latest proposal again, unchanged.  The targets depend
                # only on the live proposals and the latest bounds, so the power requested afterwards must be the standing one
                # (a target left stale by an earlier bounds update would move now)
                standing = {g: r.power.as_watts() for g, r in last_request.items()}
                resent = False
                # with regular *and* operating-point proposals live in one group the actor resolves the group of the
                # incoming proposal first, so the split legitimately depends on which kind arrived last: such groups
                # are left alone
                kinds: dict[int, set[bool]] = {}
                for ai in last_prop:
                    kinds.setdefault(actors[ai][0], set()).add(actors[ai][1])
                for ai, (t_prop, power, bl, bu) in sorted(last_prop.items()):
                    if loop.time() - t_prop >= 50.0:
                        continue   # expired or about to: sending it again would change the live set
                    g, is_op, prio = actors[ai]
                    if len(kinds[g]) != 1:
                        continue
                    resent = True
                    await prop_tx.send(Proposal(
                        source_id=f"a{prio}", preferred_power=None if power is None else Power.from_watts(power),
                        bounds=Bounds(None if bl is None else Power.from_watts(bl), None if bu is None else Power.from_watts(bu)),
                        component_ids=GROUPS[g], priority=prio, creation_time=loop.time(), set_operating_point=is_op))
                    await world.settle()
                if resent:
                    v.labels.add("live_proposals_sent_again_at_the_end")
                    all_live = all(loop.time() - t_prop < 50.0 for t_prop, *_ in last_prop.values())
                    for r in await drain_async(req_rx):
                        g = next(k for k in range(ngroups) if frozenset(r.component_ids) == GROUPS[k])
                        if all_live and len(kinds.get(g, {0, 1})) == 1 and g in standing \
                                and abs(r.power.as_watts() - standing[g]) > 1e-6:
                            v.fail(f"after every live proposal was sent again unchanged the request for group {g} became "
                                   f"{r.power.as_watts()} W; the standing request was {standing[g]} W (a target was stale)")
                            break
            await actor.stop()

    world.run(scenario)
    if flags["one"]:
        v.labels.add("one_target_changes")
    if flags["bounds_between"]:
        v.labels.add("bounds_between_proposals")
    if ngroups == 2:
        v.labels.add("two_groups")
    v.nontrivial = flags["one"] or flags["bounds_between"]
    return v


def describe(case: Any) -> Any:
    return case
