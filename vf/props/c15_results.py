"""C15 — distribution results truthfully account for the requested power.

Battery pools (real BatteryManager) and PV pools (real PVManager) on the fake API with a
generated outcome for every individual set_power call.
"""

from __future__ import annotations

import asyncio
import contextlib
import itertools
from datetime import timedelta
from typing import Any
from unittest import mock

from hypothesis import strategies as st

from frequenz.channels import Broadcast
from frequenz.client.microgrid import Connection
from frequenz.quantities import Power
from frequenz.sdk.microgrid._power_distributing.request import Request
from frequenz.sdk.microgrid._power_distributing.result import PartialFailure, Success

from .. import batsys, fakes, world
from ..core import Verdict

IDS = ("C15",)
BUDGET = {"quick": 1500, "thorough": 6000}
SIZE_BOUNDS = {
    "quick": "battery: 1-3 groups (C01 data) through BatteryManager; PV: 1-5 solar inverters through PVManager; one generated "
             "outcome vector per case plus all 5^n vectors when n <= 2 calls",
    "thorough": "battery: 1-4 groups; all 5^n vectors when n <= 3 calls",
}
RULE = {
    "C15": (
        "Hypothesis-generated requests: (battery) C01's consistent battery/inverter data and admitted requests through a real "
        "BatteryManager, (PV) 1-5 solar inverters with arbitrary negative lower bounds, requests <= 0 inside and beyond the "
        "summed bounds over all or a subset of the inverters, through a real PVManager; every set_power call gets an outcome "
        "from {ok, OperationOutOfRange, ApiClientError, RuntimeError, no reply before the timeout} (one generated vector, and "
        "all 5^n vectors for small n; otherwise two further requests on the same manager) and a generated reply latency from {0, 10 ms, 0.5 s, 2 s} (all below the 5 s timeout). Oracle, from the Result and the recorded calls: succeeded+failed+excess == requested; "
        "failed_power == sum of set-points of calls that did not return normally; succeeded/failed component sets disjoint and "
        "together the components addressed; Success iff no call failed; (with C01) succeeded_power == sum of set-points of calls "
        "that returned. Finally two requests over disjoint component sets are put in flight at once on the same manager "
        "(the distributing actor serialises per component set only) and each result is judged against its own calls. Non-trivial = >=2 calls with >=1 failure and >=1 success, or a timeout; distinct by SHA-1 of the "
        "canonical JSON case."
    )
}
ASSUMPTIONS = [
    "status trackers are replaced by a stub that reports every component working, except in a quarter of the battery cases, "
    "which keep the SDK's ComponentPoolStatusTracker and change a component's status while its call is in flight",
    "tolerance 1e-6 relative to the request",
    "API timeout 5 s of virtual time",
]
MIN_LABELS = {"C15": {"pv": 0.3, "battery": 0.3, "mixed_outcomes": 0.2, "timeout": 0.1,
                      "mixed_outcomes_with_different_latencies": 0.1, "two_requests_in_flight_on_one_manager": 0.3}}

OUT = fakes.OUTCOMES
LATENCIES = [0.0, 0.0, 0.0, 0.01, 0.5, 2.0]


def strategy(tier: str, pid: str = "C15") -> st.SearchStrategy[Any]:
    del pid
    outcomes = st.lists(st.integers(0, 4), min_size=8, max_size=8)
    # reply latency per call (index into LATENCIES; all far below the 5 s API timeout)
    latency = st.lists(st.integers(0, len(LATENCIES) - 1), min_size=8, max_size=8)
    bat = st.fixed_dictionaries({
        "kind": st.just("battery"),
        "groups": batsys.groups(max_groups=3 if tier == "quick" else 4),
        "req": batsys.request_strategy(),
        "outcomes": outcomes,
        "latency": latency,
        # a quarter of the battery cases keep the SDK's own pool status tracker and let the inverter of a failing call
        # report an error state while the calls are in flight
        "real_tracker": st.sampled_from([False, False, False, True]),
    })
    bound = st.one_of(st.sampled_from([0.0, 100.0, 1000.0]), st.integers(1, 5000).map(float), st.floats(0.0, 5000.0))
    pv = st.fixed_dictionaries({
        "kind": st.just("pv"),
        "bounds": st.lists(bound, min_size=1, max_size=5),
        "subset": st.lists(st.booleans(), min_size=5, max_size=5),
        "req": st.fixed_dictionaries({
            "kind": st.sampled_from(["inside", "inside", "exact", "beyond", "small"]),
            "frac": st.one_of(st.sampled_from([0.001, 0.5, 0.999]), st.floats(0.0, 1.0)),
        }),
        "outcomes": outcomes,
        "latency": latency,
    })
    return st.one_of(bat, pv)


def _vectors(n_calls: int, generated: list[int], enum_limit: int) -> list[list[str]]:
    vecs = [[OUT[generated[i % len(generated)]] for i in range(n_calls)]]
    if n_calls <= enum_limit:
        for combo in itertools.product(OUT, repeat=n_calls):
            if list(combo) != vecs[0]:
                vecs.append(list(combo))
    else:
        # the manager outlives a request: two more requests on the same instance, with other generated
        # outcomes and with none failing (a result must not inherit anything from the request before it)
        second = [OUT[generated[(i + 3) % len(generated)]] for i in range(n_calls)]
        vecs += [second, ["ok"] * n_calls]
    return vecs


def _check_result(v: Verdict, result: Any, power: float, calls: list[tuple[int, float]], outcomes: list[str],
                  addressed: set[int], comps_of_call: Any, where: str) -> None:
    tol = 1e-6 * max(1.0, abs(power))
    if not isinstance(result, (Success, PartialFailure)):
        v.fail(f"{where}: answered {type(result).__name__} {getattr(result, 'msg', '')}")
        return
    failed_calls = [(cid, p) for (cid, p), o in zip(calls, outcomes) if o != "ok"]
    ok_calls = [(cid, p) for (cid, p), o in zip(calls, outcomes) if o == "ok"]
    succeeded = result.succeeded_power.as_watts()
    excess = result.excess_power.as_watts()
    failed = result.failed_power.as_watts() if isinstance(result, PartialFailure) else 0.0
    failed_comps = set(result.failed_components) if isinstance(result, PartialFailure) else set()
    succ_comps = set(result.succeeded_components)
    if abs(succeeded + failed + excess - power) > tol:
        v.fail(f"{where}: succeeded {succeeded} + failed {failed} + excess {excess} != requested {power}")
    want_failed = sum(p for _, p in failed_calls)
    if abs(failed - want_failed) > tol:
        v.fail(f"{where}: failed_power {failed} != sum of set-points of failed calls {want_failed}")
    want_ok = sum(p for _, p in ok_calls)
    if abs(succeeded - want_ok) > tol:
        v.fail(f"{where}: succeeded_power {succeeded} != sum of set-points of calls that returned {want_ok} "
               f"(calls {calls}, outcomes {outcomes})")
    if succ_comps & failed_comps:
        v.fail(f"{where}: components {sorted(succ_comps & failed_comps)} both succeeded and failed")
    if succ_comps | failed_comps != addressed:
        v.fail(f"{where}: succeeded {sorted(succ_comps)} + failed {sorted(failed_comps)} != addressed {sorted(addressed)}")
    want_failed_comps = set()
    for cid, _ in failed_calls:
        want_failed_comps |= comps_of_call(cid)
    if failed_comps != want_failed_comps:
        v.fail(f"{where}: failed components {sorted(failed_comps)} != components behind failed calls {sorted(want_failed_comps)}")
    if isinstance(result, Success) != (not failed_calls):
        v.fail(f"{where}: result is {type(result).__name__} but {len(failed_calls)} call(s) failed")


def _labels(v: Verdict, vec: list[str]) -> None:
    if "hang" in vec:
        v.labels.add("timeout")
    if len(vec) >= 2 and "ok" in vec and any(o != "ok" for o in vec):
        v.labels.add("mixed_outcomes")
        v.nontrivial = True
    if "hang" in vec:
        v.nontrivial = True


def _run_battery(case: dict[str, Any], v: Verdict, enum_limit: int) -> None:
    power = batsys.request_power(case["groups"], case["req"], nudge=True)
    v.labels.add("battery")

    async def scenario() -> None:
        real = bool(case.get("real_tracker"))
        if real:
            v.labels.add("real_pool_status_tracker")
        async with batsys.ManagerWorld(case["groups"], real_tracker=real) as mw:
            inv_bats = {}
            for bids, iids in mw.ids:
                for i in iids:
                    inv_bats[i] = set(bids)
            n_calls = len(inv_bats)
            vecs = _vectors(n_calls, case["outcomes"], enum_limit)
            if n_calls <= enum_limit:
                v.labels.add("all_vectors_enumerated")
            for vec in vecs:
                order = sorted(inv_bats)
                by_inv = dict(zip(order, vec))
                mw.api.set_power_calls.clear()
                mw.api.set_power_outcomes.clear()
                mw.api.outcome_fn = lambda cid, p, idx, m=by_inv: m[cid]
                lat = case.get("latency", [0])
                lat_by_inv = {cid: LATENCIES[lat[k % len(lat)]] for k, cid in enumerate(order)}
                mw.api.latency_fn = lambda cid, p, idx, m=lat_by_inv: m[cid]
                if len({lat_by_inv[c] for c in order}) > 1 and any(o != "ok" for o in vec) and "ok" in vec:
                    v.labels.add("mixed_outcomes_with_different_latencies")
                await mw.feed()
                await world.settle(3 if real else 1)
                if real:
                    # status change in mid-flight: the inverter of a failing, slow call reports an error state
                    victims = [c for c in order if by_inv[c] not in ("ok",) and lat_by_inv[c] > 0]
                    pending_req = asyncio.create_task(mw.request(power, adjust_power=True))
                    await asyncio.sleep(0.005)
                    if victims and not pending_req.done():
                        from frequenz.client.microgrid import InverterComponentState  # pylint: disable=import-outside-toplevel

                        await mw.api.send(victims[0], fakes.inverter_data(
                            victims[0], world.now(), component_state=InverterComponentState.ERROR))
                        v.labels.add("component_turns_not_working_while_its_call_is_in_flight")
                    result = await pending_req
                else:
                    result = await mw.request(power, adjust_power=True)
                calls = list(mw.api.set_power_calls)
                outs = list(mw.api.set_power_outcomes)
                addressed = set()
                for cid, _ in calls:
                    addressed |= inv_bats[cid]
                _check_result(v, result, power, calls, outs, addressed, lambda c: inv_bats[c],
                              f"battery request {power} outcomes {by_inv}")
                _labels(v, outs)
                if v.violations:
                    return
            if len(mw.ids) < 2:
                return
            # two requests over disjoint battery groups in flight at once on the same manager
            half = len(mw.ids) // 2
            parts = [(case["groups"][:half], mw.ids[:half]), (case["groups"][half:], mw.ids[half:])]
            by_inv = dict(zip(sorted(inv_bats), vecs[0]))
            mw.api.set_power_calls.clear()
            mw.api.set_power_outcomes.clear()
            mw.api.outcome_fn = lambda cid, p, idx, m=by_inv: m[cid]
            await mw.feed()
            await world.settle()
            reqs = []
            for sub_groups, sub_ids in parts:
                bats = frozenset(b for bids, _ in sub_ids for b in bids)
                reqs.append((bats, batsys.request_power(sub_groups, case["req"], nudge=True),
                             {i for _, iids in sub_ids for i in iids}))
            await asyncio.gather(*[
                mw.manager.distribute_power(Request(Power.from_watts(pwr), bats, True)) for bats, pwr, _ in reqs])
            v.labels.add("two_requests_in_flight_on_one_manager")
            got: dict[frozenset[int], Any] = {}
            for _ in range(2):
                res = await asyncio.wait_for(mw.results_rx.receive(), timeout=30.0)
                got[frozenset(res.request.component_ids)] = res
            pairs = list(zip(mw.api.set_power_calls, mw.api.set_power_outcomes))
            for bats, pwr, invs in reqs:
                res = got.get(bats)
                if res is None:
                    v.fail(f"no result for the concurrent battery request over {sorted(bats)}")
                    return
                mine = [(c, o) for c, o in pairs if c[0] in invs]
                addressed = set()
                for (cid, _), _o in mine:
                    addressed |= inv_bats[cid]
                _check_result(v, res, pwr, [c for c, _ in mine], [o for _, o in mine], addressed, lambda c: inv_bats[c],
                              f"battery request {pwr} over {sorted(bats)} (concurrent with another request on the same "
                              f"manager) outcomes { {c: by_inv[c] for c in sorted(invs)} }")

    world.run(scenario)


class _PVWorld:
    def __init__(self, bounds: list[float]) -> None:
        self.bounds = bounds
        self.ids = list(range(10, 10 + len(bounds)))

    async def __aenter__(self) -> "_PVWorld":
        from frequenz.sdk.microgrid._power_distributing._component_managers._pv_inverter_manager import (  # pylint: disable=import-outside-toplevel
            _pv_inverter_manager,
        )

        comps = {fakes.grid(1), fakes.meter(2)} | {fakes.pv_inverter(i) for i in self.ids}
        conns = {Connection(1, 2)} | {Connection(2, i) for i in self.ids}
        self.api = fakes.FakeApi(comps, conns)
        self._stack = contextlib.ExitStack()
        self._stack.enter_context(fakes.connection(fakes.build_graph(comps, conns), self.api))
        self._stack.enter_context(mock.patch.object(_pv_inverter_manager, "ComponentPoolStatusTracker",
                                                    batsys._AllWorkingTracker))  # pylint: disable=protected-access
        self.status_chan: Any = Broadcast(name="pv-status")
        self.results_chan: Any = Broadcast(name="pv-results")
        self.results_rx = self.results_chan.new_receiver(limit=100)
        self.manager = _pv_inverter_manager.PVManager(
            self.status_chan.new_sender(), self.results_chan.new_sender(), timedelta(seconds=5.0))
        await self.manager.start()
        for cid, b in zip(self.ids, self.bounds):
            await self.api.send(cid, fakes.inverter_data(
                cid, world.now(), active_power_inclusion_lower_bound=-b + 0.0, active_power_inclusion_upper_bound=0.0))
        await world.settle(2)
        return self

    async def __aexit__(self, *exc: Any) -> None:
        try:
            await self.manager.stop()
        finally:
            self._stack.close()


def _run_pv(case: dict[str, Any], v: Verdict, enum_limit: int) -> None:
    v.labels.add("pv")
    bounds = case["bounds"]
    n = len(bounds)
    chosen = [i for i in range(n) if case["subset"][i]] or list(range(n))
    total = sum(bounds[i] for i in chosen)
    kind, frac = case["req"]["kind"], case["req"]["frac"]
    if kind == "exact":
        mag = total
    elif kind == "beyond":
        mag = total * (1.0 + frac) + 1.0
    elif kind == "small":
        mag = 1e-3
    else:
        mag = total * frac
    power = -mag + 0.0
    if len(chosen) < n:
        v.labels.add("pv_subset")
    if kind == "beyond":
        v.labels.add("pv_beyond_bounds")

    async def scenario() -> None:
        async with _PVWorld(bounds) as pw:
            ids = {pw.ids[i] for i in chosen}
            vecs = _vectors(len(ids), case["outcomes"], enum_limit)
            if len(ids) <= enum_limit:
                v.labels.add("all_vectors_enumerated")
            for vec in vecs:
                by_inv = dict(zip(sorted(ids), vec))
                pw.api.set_power_calls.clear()
                pw.api.set_power_outcomes.clear()
                pw.api.outcome_fn = lambda cid, p, idx, m=by_inv: m[cid]
                lat = case.get("latency", [0])
                lat_by_inv = {cid: LATENCIES[lat[k % len(lat)]] for k, cid in enumerate(sorted(ids))}
                pw.api.latency_fn = lambda cid, p, idx, m=lat_by_inv: m[cid]
                if len(set(lat_by_inv.values())) > 1 and any(o != "ok" for o in vec) and "ok" in vec:
                    v.labels.add("mixed_outcomes_with_different_latencies")
                req = Request(Power.from_watts(power), frozenset(ids), True)
                await pw.manager.distribute_power(req)
                await world.settle()
                try:
                    result = await asyncio.wait_for(pw.results_rx.receive(), timeout=4.0)
                except asyncio.TimeoutError:
                    v.fail(f"PV request {power} over {sorted(ids)} produced no result")
                    return
                calls = list(pw.api.set_power_calls)
                outs = list(pw.api.set_power_outcomes)
                if {c for c, _ in calls} - ids:
                    v.fail(f"PV request over {sorted(ids)} called set_power on {sorted({c for c, _ in calls} - ids)}")
                _check_result(v, result, power, calls, outs, {c for c, _ in calls}, lambda c: {c},
                              f"PV request {power} over {sorted(ids)} outcomes {by_inv}")
                _labels(v, outs)
                if v.violations:
                    return
            if len(ids) < 2:
                return
            # two requests over disjoint inverter sets in flight at once on the same manager (the distributing
            # actor serialises per component set only): each result must account for its own request
            order = sorted(ids)
            set_a, set_b = set(order[: len(order) // 2]), set(order[len(order) // 2:])
            bound_of = dict(zip(pw.ids, bounds))
            p_a = -(sum(bound_of[c] for c in set_a) * frac + 0.25)
            p_b = -(sum(bound_of[c] for c in set_b) * 0.5 + 1.0)
            by_inv = dict(zip(order, vecs[0]))
            pw.api.set_power_calls.clear()
            pw.api.set_power_outcomes.clear()
            pw.api.outcome_fn = lambda cid, p, idx, m=by_inv: m[cid]
            lat = case.get("latency", [0])
            lat_by_inv = {cid: LATENCIES[lat[k % len(lat)]] for k, cid in enumerate(order)}
            pw.api.latency_fn = lambda cid, p, idx, m=lat_by_inv: m[cid]
            await asyncio.gather(pw.manager.distribute_power(Request(Power.from_watts(p_a), frozenset(set_a), True)),
                                 pw.manager.distribute_power(Request(Power.from_watts(p_b), frozenset(set_b), True)))
            await world.settle()
            v.labels.add("two_requests_in_flight_on_one_manager")
            if any(lat_by_inv[c] > 0 for c in set_a) and any(lat_by_inv[c] > 0 for c in set_b):
                v.labels.add("two_requests_overlapping_in_time")
            got: dict[frozenset[int], Any] = {}
            for _ in range(2):
                try:
                    res = await asyncio.wait_for(pw.results_rx.receive(), timeout=4.0)
                except asyncio.TimeoutError:
                    v.fail(f"two concurrent PV requests over {sorted(set_a)} / {sorted(set_b)} produced {len(got)} result(s)")
                    return
                got[frozenset(res.request.component_ids)] = res
            pairs = list(zip(pw.api.set_power_calls, pw.api.set_power_outcomes))
            for subset, pwr in ((set_a, p_a), (set_b, p_b)):
                res = got.get(frozenset(subset))
                if res is None:
                    v.fail(f"no result for the concurrent PV request over {sorted(subset)}")
                    return
                mine = [(c, o) for c, o in pairs if c[0] in subset]
                _check_result(v, res, pwr, [c for c, _ in mine], [o for _, o in mine], {c[0] for c, _ in mine}, lambda c: {c},
                              f"PV request {pwr} over {sorted(subset)} (concurrent with another request on the same manager) "
                              f"outcomes { {c: by_inv[c] for c in sorted(subset)} }")

    world.run(scenario)


def run_case(case: Any, pid: str) -> Verdict:
    del pid
    v = Verdict()
    enum_limit = 2
    try:
        if case["kind"] == "battery":
            _run_battery(case, v, enum_limit)
        else:
            _run_pv(case, v, enum_limit)
    except Exception as exc:  # pylint: disable=broad-except
        import traceback  # pylint: disable=import-outside-toplevel

        v.fail(f"raised {type(exc).__name__}: {exc} :: {traceback.format_exc()[-600:]}")
    return v


def describe(case: Any) -> Any:
    return case
