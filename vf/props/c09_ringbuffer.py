"""C09 — ring buffer / moving window behaves as a sliding time-indexed map.

Model-based: an update/query history is applied to OrderedRingBuffer (list and numpy
containers) or to a MovingWindow fed through a channel, and to a dict model
slot -> last valid value; every observable is compared after every step.
"""

from __future__ import annotations

import math
from datetime import datetime, timedelta, timezone
from typing import Any

import numpy as np
from hypothesis import strategies as st

from frequenz.channels import Broadcast
from frequenz.quantities import Quantity
from frequenz.sdk.timeseries import MovingWindow, Sample
from frequenz.sdk.timeseries._ringbuffer import OrderedRingBuffer

from .. import world
from ..core import Verdict

IDS = ("C09",)
BUDGET = {"quick": 6000, "thorough": 40000}
SIZE_BOUNDS = {
    "quick": "capacity 1-8, <= 25 operations, periods 1 s / 0.25 s / 7 s, list / numpy(np.empty) / MovingWindow",
    "thorough": "capacity 1-24, <= 80 operations",
}
RULE = {
    "C09": (
        "Hypothesis-generated histories: update(slot relative to the newest slot in [-cap-2, 2cap+2], off-grid fraction from "
        "{0, +-0.2, +-0.49, +-0.5 periods}, unique valid value / None / NaN) interleaved with queries window(i, j) (None, "
        "negative, out of range), window(t0, t1) with aligned and unaligned datetimes inside/outside/straddling the covered "
        "range, closer than one period, t0 >= t1, fill values NaN / sentinel / None, at(key), dump/load round-trips through the "
        "serialization module after which the history continues on the loaded copy; on OrderedRingBuffer(list), "
        "OrderedRingBuffer(np.empty) and MovingWindow (fed through a channel on the virtual loop). Oracle: dict model of the "
        "window ending at the newest slot; after every update count_valid, the set of slots covered by gaps, oldest/newest "
        "timestamps; every query must return the model values (fill value where invalid) of a contiguous slot run whose ends "
        "are within one slot of the requested fractional positions, never longer than the query spans. Non-trivial = the "
        "history has an out-of-order or gap-creating update and a query that is unaligned or spans a gap; distinct by SHA-1 of "
        "the canonical JSON case."
    )
}
ASSUMPTIONS = [
    "newest_timestamp may be the newest window slot or the newest valid slot (both accepted)",
    "gaps are compared as a set of slots, not as a particular merged list",
    "index queries are interpreted over the implementation's own reported covered range [oldest_timestamp, newest_timestamp]",
    "at() is asserted only for valid slots and for keys outside the covered range",
]
MIN_LABELS = {"C09": {"out_of_order_update": 0.3, "gap_created": 0.3, "unaligned_dt_query": 0.3, "jump_beyond_capacity": 0.1,
                      "too_old_rejected": 0.1, "moving_window": 0.05}}

EPOCH = datetime(1970, 1, 1, tzinfo=timezone.utc)
FRACS = [0, 0, 20, -20, 50, -50, 49, -49]  # hundredths of a period
FILL = -1.0


@st.composite
def _case(draw: Any, max_cap: int, max_ops: int) -> dict[str, Any]:
    cap = draw(st.integers(1, max_cap))
    ops: list[list[Any]] = []
    idx = st.one_of(st.none(), st.integers(-cap - 2, cap + 2))
    for _ in range(draw(st.integers(1, max_ops))):
        kind = draw(st.sampled_from(["u", "u", "u", "u", "u", "u", "qi", "qi", "qd", "qd", "qd", "qd", "at", "at", "rt", "pfe"]))
        if kind == "u":
            ops.append(["upd", draw(st.integers(-cap - 2, 2 * cap + 2)), draw(st.sampled_from(FRACS)),
                        draw(st.sampled_from(["v", "v", "v", "none", "nan"]))])
        elif kind == "qi":
            ops.append(["qi", draw(idx), draw(idx), draw(st.sampled_from(["nan", "sentinel", "none"]))])
        elif kind == "qd":
            ops.append(["qd", draw(st.integers(-2, cap + 2)), draw(st.sampled_from(FRACS)),
                        draw(st.integers(-2, cap + 2)), draw(st.sampled_from(FRACS)),
                        draw(st.sampled_from(["nan", "sentinel", "none"]))])
        elif kind == "rt":
            ops.append(["rt"])
        elif kind == "pfe":
            # a reader of the MovingWindow: periodic features over it (period, start, length in slots; weights or None)
            ops.append(["pfe", draw(st.integers(1, max(1, cap))), draw(st.integers(-1, cap)), draw(st.integers(1, max(1, cap))),
                        draw(st.sampled_from([None, [1.0, 3.0, 2.0, 5.0, 1.0, 4.0, 2.0, 3.0], [2.0, 1.0, 1.0, 3.0, 1.0, 2.0, 1.0, 1.0]]))])
        else:
            ops.append(["at", draw(st.integers(-2, cap + 2))])
    container = draw(st.sampled_from(["list", "numpy", "numpy", "mw"]))
    if container == "mw" and draw(st.integers(0, 2)) == 0:
        # a window that was filled in order and has rotated, then read by the periodic feature extractor and queried
        cap = draw(st.sampled_from([8, 12, 12, 16]))
        per = draw(st.sampled_from([2, 4]))
        ops = [["upd", 0, 0, "v"]] + [["upd", 1, 0, "v"] for _ in range(draw(st.integers(cap, 2 * cap + 3)))]
        weights = draw(st.sampled_from([[1.0, 3.0, 2.0, 5.0, 1.0, 4.0, 2.0, 3.0], [2.0, 1.0, 1.0, 3.0, 1.0, 2.0, 1.0, 1.0]]))
        for _ in range(draw(st.integers(1, 3))):
            ops.append(["pfe", per, draw(st.integers(0, cap - 1)), draw(st.integers(1, per)), weights])
            ops.append(["qi", None, None, "nan"])
            ops.append(["upd", 1, 0, "v"])
    return {
        "cap": cap,
        "period_us": draw(st.sampled_from([1_000_000, 250_000, 7_000_000, 200_000, 100_000, 300_000])),
        "align_us": draw(st.sampled_from([0, 0, 300_000, 123_456_000_000])),
        "container": container,
        "start_slot": draw(st.integers(0, 50)),
        # sample and query timestamps are expressed in this fixed-offset zone (same instants)
        "tz_offset_min": draw(st.sampled_from([0, 0, 0, 120, -330, 765])),
        "ops": ops,
    }


def strategy(tier: str, pid: str = "C09") -> st.SearchStrategy[Any]:
    del pid
    return _case(8, 25) if tier == "quick" else _case(24, 80)


def _round_half_even(num: int, den: int) -> int:
    q, r = divmod(num, den)
    if 2 * r > den or (2 * r == den and q % 2 != 0):
        q += 1
    return q


class _Driver:
    """Common face of the three containers."""

    def __init__(self, case: dict[str, Any]) -> None:
        self.period = timedelta(microseconds=case["period_us"])
        self.align = EPOCH + timedelta(microseconds=case["align_us"])
        self.kind = case["container"]
        self.mw: Any = None
        self.chan: Any = None
        cap = case["cap"]
        if self.kind == "list":
            self.buf: Any = OrderedRingBuffer([float("nan")] * cap, self.period, self.align)
        elif self.kind == "numpy":
            self.buf = OrderedRingBuffer(np.empty(cap, dtype=float), self.period, self.align)

    async def start(self, cap: int) -> None:
        if self.kind == "mw":
            self.chan = Broadcast(name="c09")
            self.sender = self.chan.new_sender()
            self.mw = MovingWindow(size=self.period * cap,
                                   resampled_data_recv=self.chan.new_receiver(limit=1000),
                                   input_sampling_period=self.period, align_to=self.align)
            self.mw.start()
            self.buf = self.mw._buffer  # pylint: disable=protected-access
            await world.settle()

    async def update(self, ts: datetime, value: Any) -> bool:
        """Apply the update; returns True if it was rejected as too old."""
        sample = Sample(ts, value)
        if self.mw is None:
            try:
                self.buf.update(sample)
                return False
            except IndexError:
                return True
        await self.sender.send(sample)
        await world.settle()
        return False

    def window(self, start: Any, end: Any, fill: Any) -> list[float]:
        if self.mw is not None and isinstance(fill, float) and math.isnan(fill):
            # the default fill value: go through MovingWindow.__getitem__ with a slice
            return [float(x) for x in self.mw[start:end]]
        obj = self.mw if self.mw is not None else self.buf
        return [float(x) for x in obj.window(start, end, force_copy=True, fill_value=fill)]

    def at(self, key: Any) -> float:
        if self.mw is not None:
            return float(self.mw[key])  # __getitem__ -> at() for datetimes and integers
        # OrderedRingBuffer has no at(); use a one-slot window
        raise NotImplementedError

    def roundtrip(self) -> bool:
        """Dump the buffer to a file and continue with the loaded copy (serialization module)."""
        if self.mw is not None:
            return False
        import os  # pylint: disable=import-outside-toplevel
        import tempfile  # pylint: disable=import-outside-toplevel

        from frequenz.sdk.timeseries._ringbuffer import serialization  # pylint: disable=import-outside-toplevel

        fd, path = tempfile.mkstemp(prefix="vf_c09_", suffix=".pkl")
        os.close(fd)
        try:
            serialization.dump(self.buf, path)
            loaded = serialization.load(path)
        finally:
            os.unlink(path)
        if loaded is None:
            raise RuntimeError("load() returned None for a file that was just dumped")
        self.buf = loaded
        return True

    async def stop(self) -> None:
        if self.mw is not None:
            await self.mw.stop()


def _eq(got: list[float], want: list[float | None], fill: Any) -> bool:
    if len(got) != len(want):
        return False
    for g, w in zip(got, want):
        if w is None:  # invalid slot
            if fill is None:
                continue  # unspecified content
            if isinstance(fill, float) and math.isnan(fill):
                if not math.isnan(g):
                    return False
            elif g != fill:
                return False
        elif g != w:
            return False
    return True


def run_case(case: Any, pid: str) -> Verdict:
    del pid
    v = Verdict()
    cap, p_us = case["cap"], case["period_us"]
    drv = _Driver(case)
    align = drv.align

    # the same instants, expressed in a generated fixed-offset time zone (aware datetimes compare by instant)
    tz = timezone(timedelta(minutes=case.get("tz_offset_min", 0)))

    def ts_of(slot: int, frac100: int = 0) -> datetime:
        return (align + timedelta(microseconds=slot * p_us + (p_us * frac100) // 100)).astimezone(tz)

    def slot_of(dt: datetime) -> int:
        return (dt - align) // timedelta(microseconds=p_us)

    state = {"newest": None, "model": {}, "ctr": 0, "ooo": False, "gap": False, "qual_query": False}

    async def scenario() -> None:
        await drv.start(cap)
        if drv.mw is not None and drv.buf.maxlen != cap:
            v.fail(f"MovingWindow(size = {cap} sampling periods) has capacity {drv.buf.maxlen}: it keeps samples older than its time span")
            return
        model: dict[int, float] = state["model"]
        for step, op in enumerate(case["ops"]):
            newest = state["newest"]
            where = f"step {step} {op}"
            try:
                if op[0] == "upd":
                    _, off, frac, kind = op
                    base = case["start_slot"] if newest is None else newest + off
                    slot = _round_half_even(base * 100 + frac, 100)
                    state["ctr"] += 1
                    val = 1000.0 + state["ctr"]
                    value = Quantity(val) if kind == "v" else (None if kind == "none" else Quantity(float("nan")))
                    too_old = newest is not None and slot < newest - cap + 1
                    if frac != 0:
                        v.labels.add("unaligned_update")
                    if too_old and drv.mw is not None:
                        # a MovingWindow consumes an ordered (resampled) stream; samples older than
                        # its window are outside its input domain and are not sent
                        v.labels.add("too_old_not_sent_to_moving_window")
                        continue
                    rejected = await drv.update(ts_of(base, frac), value)
                    if drv.mw is None and rejected != too_old:
                        v.fail(f"{where}: slot {slot} (newest {newest}, capacity {cap}) "
                               f"{'rejected' if rejected else 'accepted'}, expected {'rejected' if too_old else 'accepted'}")
                        return
                    if too_old:
                        v.labels.add("too_old_rejected")
                    else:
                        if newest is not None and slot < newest:
                            state["ooo"] = True
                            v.labels.add("out_of_order_update")
                        if newest is not None and slot > newest + 1:
                            state["gap"] = True
                            v.labels.add("gap_created")
                        if newest is not None and slot - newest >= cap:
                            v.labels.add("jump_beyond_capacity")
                        if kind != "v":
                            state["gap"] = True
                        newest = slot if newest is None else max(newest, slot)
                        state["newest"] = newest
                        for k in list(model):
                            if k < newest - cap + 1:
                                del model[k]
                        if kind == "v":
                            model[slot] = val
                        else:
                            model.pop(slot, None)
                    if newest is None:
                        continue
                    # summary observables
                    lo = newest - cap + 1
                    valid = sorted(model)
                    buf = drv.buf
                    if buf.count_valid() != len(valid):
                        v.fail(f"{where}: count_valid {buf.count_valid()} != {len(valid)} valid slots {valid}")
                        return
                    gapslots: set[int] = set()
                    for g in buf.gaps:
                        gapslots |= set(range(slot_of(g.start), slot_of(g.end)))
                    want_gaps = {k for k in range(lo, newest + 1) if k not in model}
                    inwin = set(range(lo, newest + 1))
                    if gapslots & inwin != want_gaps or gapslots - inwin:
                        v.fail(f"{where}: gaps cover slots {sorted(gapslots)} but the window [{lo}, {newest}] lacks "
                               f"valid values exactly at {sorted(want_gaps)}")
                        return
                    ot, nt = buf.oldest_timestamp, buf.newest_timestamp
                    if (ot is None) != (not valid) or (nt is None) != (not valid):
                        v.fail(f"{where}: oldest {ot} / newest {nt} None-ness with valid slots {valid}")
                        return
                    if valid:
                        if ot != ts_of(valid[0]):
                            v.fail(f"{where}: oldest_timestamp {ot} != first valid slot {valid[0]} ({ts_of(valid[0])})")
                            return
                        if nt not in (ts_of(newest), ts_of(valid[-1])):
                            v.fail(f"{where}: newest_timestamp {nt} is neither the newest slot {newest} nor the newest "
                                   f"valid slot {valid[-1]}")
                            return
                    continue

                if op[0] == "pfe":
                    if drv.mw is None or newest is None:
                        continue
                    from frequenz.sdk.timeseries._periodic_feature_extractor import (  # pylint: disable=import-outside-toplevel
                        PeriodicFeatureExtractor,
                    )

                    raw_before = [float(x) for x in drv.buf._buffer]  # pylint: disable=protected-access
                    lo_slot = newest - cap + 1
                    # the number of weights has to equal the number of periods inside the window: try the prefixes
                    for nweights in ([None] if op[4] is None else range(1, len(op[4]) + 1)):
                        try:
                            pfe = PeriodicFeatureExtractor(drv.mw, drv.period * op[1])
                            pfe.avg(ts_of(lo_slot + op[2]), ts_of(lo_slot + op[2] + op[3]),
                                    weights=None if nweights is None else op[4][:nweights])
                            v.labels.add("periodic_features_read_from_the_window")
                            if nweights is not None and nweights >= 2:
                                v.labels.add("periodic_features_with_non_uniform_weights")
                            break
                        except Exception:  # pylint: disable=broad-except
                            v.labels.add("periodic_features_rejected_the_request")
                    raw_after = [float(x) for x in drv.buf._buffer]  # pylint: disable=protected-access
                    if any(a != b and not (math.isnan(a) and math.isnan(b)) for a, b in zip(raw_before, raw_after)):
                        v.fail(f"{where}: reading periodic features changed the values stored in the window: "
                               f"{raw_before} -> {raw_after}")
                        return
                    continue
                if op[0] == "rt":
                    if drv.roundtrip():
                        v.labels.add("dump_load_roundtrip")
                    continue
                # queries
                if newest is None:
                    continue
                buf = drv.buf
                valid = sorted(model)
                lo = newest - cap + 1
                ot, nt = buf.oldest_timestamp, buf.newest_timestamp
                fillname = op[-1] if op[0] != "at" else None
                fill = {"nan": float("nan"), "sentinel": FILL, "none": None, None: None}[fillname]
                if op[0] == "qi":
                    _, i, j, _ = op
                    got = drv.window(i, j, fill)
                    if not valid:
                        if got:
                            v.fail(f"{where}: no valid data but window({i}, {j}) returned {got}")
                            return
                        continue
                    cov = list(range(slot_of(ot), slot_of(nt) + 1))
                    want = [model.get(k) for k in cov[slice(i, j)]]
                    if any(w is None for w in want):
                        state["qual_query"] = True
                    if not _eq(got, want, fill):
                        v.fail(f"{where}: window({i}, {j}, fill={fillname}) = {got}, model gives "
                               f"{[FILL if w is None else w for w in want]} over covered slots {cov}")
                        return
                elif op[0] == "qd":
                    _, a_off, fa, b_off, fb, _ = op
                    a, b = lo + a_off, lo + b_off
                    got = drv.window(ts_of(a, fa), ts_of(b, fb), fill)
                    if fa or fb:
                        v.labels.add("unaligned_dt_query")
                        state["qual_query"] = True
                    if not valid:
                        if got:
                            v.fail(f"{where}: no valid data but a datetime window returned {got}")
                            return
                        continue
                    o, n = slot_of(ot), slot_of(nt)
                    # fractional positions (in slots), clamped to the covered range
                    s0 = max(a + fa / 100.0, float(o))
                    e0 = min(b + fb / 100.0, float(n + 1))
                    ok = False
                    if s0 >= e0:
                        ok = got == []
                        if (a, fa) >= (b, fb):
                            v.labels.add("dt_query_start_ge_end")
                    else:
                        if e0 - s0 < 1:
                            v.labels.add("dt_query_shorter_than_period")
                        maxlen = min(cap, math.ceil(e0 - s0))
                        if abs(fa) == 50 and abs(fb) == 50 and s0 == a + fa / 100.0 and e0 == b + fb / 100.0:
                            # both ends are exact half-slot ties: the documented half-to-even rule may
                            # round them in opposite directions, which adds one slot
                            maxlen = min(cap, maxlen + 1)
                            v.labels.add("dt_query_both_ends_tie")
                        for aa in {math.floor(s0), math.ceil(s0)}:
                            for bb in {math.floor(e0), math.ceil(e0)}:
                                if bb < aa or bb - aa > maxlen:
                                    continue
                                want = [model.get(k) for k in range(aa, bb)]
                                if _eq(got, want, fill):
                                    ok = True
                                    if any(w is None for w in want):
                                        state["qual_query"] = True
                    if not ok:
                        v.fail(f"{where}: window({a + fa / 100.0}, {b + fb / 100.0} slots, fill={fillname}) = {got}; "
                               f"no contiguous slot run of the model {dict(sorted(model.items()))} (covered [{o}, {n}], "
                               f"capacity {cap}) matches")
                        return
                elif op[0] == "at" and drv.mw is not None:
                    k = lo + op[1]
                    if not valid:
                        try:
                            drv.at(ts_of(k))
                            v.fail(f"{where}: at() on an empty window did not raise IndexError")
                            return
                        except IndexError:
                            continue
                    o, n = slot_of(ot), slot_of(nt)
                    if k in model:
                        got_at = drv.at(ts_of(k))
                        if got_at != model[k]:
                            v.fail(f"{where}: at(slot {k}) = {got_at}, stored value is {model[k]}")
                            return
                        # the same slot by integer index (0 = oldest covered slot, negative from the newest)
                        for idx in (k - o, k - n - 1):
                            got_idx = drv.at(idx)
                            if got_idx != model[k]:
                                v.fail(f"{where}: window[{idx}] = {got_idx}, stored value of slot {k} is {model[k]} "
                                       f"(covered [{o}, {n}])")
                                return
                    elif k < o or k > n:
                        try:
                            drv.at(ts_of(k))
                            v.fail(f"{where}: at(slot {k}) outside the covered range [{o}, {n}] did not raise IndexError")
                            return
                        except IndexError:
                            pass
            except Exception as exc:  # pylint: disable=broad-except
                import traceback  # pylint: disable=import-outside-toplevel

                v.fail(f"{where}: raised {type(exc).__name__}: {exc} :: {traceback.format_exc()[-500:]}")
                return
        await drv.stop()

    world.run(scenario)
    if case["container"] == "mw":
        v.labels.add("moving_window")
    v.labels.add("container_" + case["container"])
    if case.get("tz_offset_min"):
        v.labels.add("timestamps_in_a_non_utc_zone")
    v.nontrivial = (state["ooo"] or state["gap"]) and state["qual_query"]
    return v


def describe(case: Any) -> Any:
    return case
