"""C18 — pool SoC and capacity are the documented aggregates of working batteries.

Generator: battery sets with per-metric presence, a working subset, a SoC bump and a
capacity scale factor.  Oracle: exact rational reference of the documented formulas,
plus range / monotonicity / scale-invariance relations.
"""

from __future__ import annotations

import math
from datetime import datetime, timezone
from fractions import Fraction as Fr
from typing import Any

import asyncio
from datetime import timedelta

from hypothesis import strategies as st

from frequenz.client.microgrid import ComponentMetricId as M
from frequenz.sdk.timeseries.battery_pool._component_metrics import ComponentMetricsData
from frequenz.sdk.timeseries.battery_pool._metric_calculator import (
    CapacityCalculator,
    SoCCalculator,
)

from .. import fakes, world
from ..core import Verdict

IDS = ("C18",)
NOW = datetime(2024, 1, 1, tzinfo=timezone.utc)
TOL = 5e-7  # percent; the code snaps values isclose() to 100 % (rel_tol 1e-9 of 100 = 1e-7), so results may differ by up to 1e-7

BUDGET = {"quick": 4500, "thorough": 40000}
SIZE_BOUNDS = {
    "quick": "1-6 batteries, capacities 0..1e6, limits on a grid or float, SoC anywhere in [-10,110]",
    "thorough": "1-8 batteries, same value domains",
}
RULE = {
    "C18": (
        "Hypothesis-generated battery sets (per metric present/absent, capacity in {0,1,ints,floats}, "
        "SoC limits equal or >=1e-3 apart, SoC on/inside/outside its limits), a working subset, "
        "batteries missing from the data altogether, one SoC bump and one capacity scale factor; "
        "checked against an exact Fraction reference of the documented formulas and the relations "
        "range/monotone/scale; a fifth of the cases send the same records as API messages (absent metric = NaN field) to a real "
        "SendOnUpdate aggregator with LatestBatteryMetricsFetcher on the fake API, interleaved with working-set changes and "
        "clock advances (data time-out 2 s), and compare the latest emitted value with the reference on the modelled cache. "
        "Non-trivial = >=2 qualifying batteries with different limits, or a "
        "disqualified battery next to a qualifying one, or total usable capacity 0; distinct by "
        "SHA-1 of the canonical JSON case."
    )
}
ASSUMPTIONS = [
    "NaN metrics never reach the calculators (the fetcher drops them), so 'missing' covers NaN",
    "SoC limits closer than 1e-3 but not equal are not generated (the code documents isclose limits as equal)",
    "tolerance 1e-7 percentage points / 1e-9 relative on capacity",
]
MIN_LABELS = {"C18": {"pipeline": 0.05, "disqualified": 0.10, "equal_limits": 0.05, "zero_total": 0.01, "multi_qualifying": 0.2}}


def _num() -> st.SearchStrategy[float]:
    return st.one_of(
        st.sampled_from([0.0, 1.0, 1000.0]),
        st.integers(1, 100000).map(float),
        st.floats(1e-3, 1e6, allow_nan=False, allow_infinity=False),
    )


@st.composite
def _battery(draw: Any) -> dict[str, Any]:
    lo = draw(st.one_of(st.sampled_from([0.0, 10.0, 20.0, 50.0]), st.floats(0, 90)))
    kind = draw(st.sampled_from(["eq", "grid", "float"]))
    if kind == "eq":
        hi = lo
    elif kind == "grid":
        hi = min(100.0, lo + draw(st.sampled_from([1.0, 10.0, 30.0, 50.0])))
        if hi - lo < 1e-3:
            hi = lo
    else:
        hi = lo + draw(st.floats(1e-3, 100.0 - lo if 100.0 - lo > 1e-3 else 1e-3))
    sk = draw(st.sampled_from(["lo", "hi", "in", "below", "above", "any"]))
    if sk == "lo":
        soc = lo
    elif sk == "hi":
        soc = hi
    elif sk == "in":
        soc = lo + (hi - lo) * draw(st.floats(0, 1))
    elif sk == "below":
        soc = lo - draw(st.floats(0.001, 10))
    elif sk == "above":
        soc = hi + draw(st.floats(0.001, 10))
    else:
        soc = draw(st.floats(-10, 110))
    # each metric present with probability 0.95
    mask = [draw(st.integers(0, 19)) >= 1 for _ in range(4)]
    return {
        "cap": draw(_num()) if mask[0] else None,
        "lo": lo if mask[1] else None,
        "hi": hi if mask[2] else None,
        "soc": soc if mask[3] else None,
        "in_data": draw(st.integers(0, 9)) >= 1,
        "working": draw(st.integers(0, 9)) >= 2,
    }


def strategy(tier: str, pid: str = "C18") -> st.SearchStrategy[Any]:
    del pid
    nmax = 6 if tier == "quick" else 8
    pure = st.fixed_dictionaries(
        {
            "bats": st.lists(_battery(), min_size=1, max_size=nmax),
            "bump": st.tuples(st.integers(0, nmax - 1), st.one_of(st.sampled_from([1e-6, 0.5, 5.0, 100.0]), st.floats(0, 120))),
            "scale": st.sampled_from([0.5, 2.0, 1000.0, 3.0]),
        }
    )
    # pipeline: the same battery records arrive as API messages (absent metric = NaN field) at a real
    # SendOnUpdate aggregator, interleaved with working-set changes and clock advances
    op = st.one_of(
        st.tuples(st.just("msg"), st.integers(0, 3), _battery()).map(list),
        st.tuples(st.just("msg"), st.integers(0, 3), _battery()).map(list),
        st.tuples(st.just("work"), st.lists(st.booleans(), min_size=4, max_size=4)).map(list),
        st.tuples(st.just("adv"), st.sampled_from([0.3, 0.7, 1.1, 2.3])).map(list),
        # the battery's previous message once more, values unchanged (the steady state of a real component)
        st.tuples(st.just("again"), st.integers(0, 3)).map(list),
        st.tuples(st.just("again"), st.integers(0, 3)).map(list),
        # a status blip: everything but one battery keeps working, then all work again
        st.tuples(st.just("blip"), st.integers(0, 3)).map(list),
        # slow drift: 25 messages of one battery, SoC and capacity growing by a tiny relative step each
        st.tuples(st.just("drift"), st.integers(0, 3), st.sampled_from([5e-7, 5e-5])).map(list),
    )
    pipeline = st.fixed_dictionaries({
        "kind": st.just("pipeline"),
        "nbat": st.integers(1, 4),
        "metric": st.sampled_from(["soc", "capacity"]),
        "ops": st.lists(op, min_size=3, max_size=14),
    })
    return st.one_of(pure, pure, pure, pure, pipeline)


def _mk(bats: list[dict[str, Any]]) -> tuple[dict[int, ComponentMetricsData], set[int]]:
    data = {}
    for i, b in enumerate(bats):
        if not b["in_data"]:
            continue
        metrics = {}
        for key, mid in (("cap", M.CAPACITY), ("lo", M.SOC_LOWER_BOUND), ("hi", M.SOC_UPPER_BOUND), ("soc", M.SOC)):
            if b[key] is not None:
                metrics[mid] = float(b[key])
        data[i] = ComponentMetricsData(i, NOW, metrics)
    working = {i for i, b in enumerate(bats) if b["working"]}
    return data, working


def _reference(bats: list[dict[str, Any]]) -> tuple[Fr | None, Fr | None, int, int]:
    """Exact documented aggregates: (soc %, capacity Wh, n_soc_qualifying, n_cap_qualifying)."""
    used = Fr(0)
    total = Fr(0)
    cap = Fr(0)
    n_soc = n_cap = 0
    for b in bats:
        if not (b["working"] and b["in_data"]):
            continue
        if b["cap"] is None or b["lo"] is None or b["hi"] is None:
            continue
        c, lo, hi = Fr(b["cap"]), Fr(b["lo"]), Fr(b["hi"])
        n_cap += 1
        cap += c * (hi - lo) / 100
        if b["soc"] is None:
            continue
        n_soc += 1
        soc = Fr(b["soc"])
        if hi == lo:
            scaled = Fr(0) if soc < lo else Fr(100)
        else:
            scaled = min(max((soc - lo) / (hi - lo) * 100, Fr(0)), Fr(100))
        used += c * (hi - lo) * scaled
        total += c * (hi - lo)
    soc_ref: Fr | None
    if n_soc == 0:
        soc_ref = None
    elif total == 0:
        soc_ref = Fr(-1)  # undefined weighted mean: any value in [0, 100] is accepted
    else:
        soc_ref = used / total
    return soc_ref, (cap if n_cap else None), n_soc, n_cap


def _calc(bats: list[dict[str, Any]], calcs: tuple[Any, Any] | None = None) -> tuple[float | None, float | None]:
    """Evaluate both calculators; `calcs` lets several evaluations share one pair of instances."""
    data, working = _mk(bats)
    ids = set(range(len(bats)))
    soc_calc, cap_calc = calcs or (SoCCalculator(ids), CapacityCalculator(ids))
    soc = soc_calc.calculate(data, set(working)).value
    cap = cap_calc.calculate(data, set(working)).value
    return (None if soc is None else soc.as_percent()), (None if cap is None else cap.as_watt_hours())


def _run_pipeline(case: dict[str, Any], v: Verdict) -> None:
    from frequenz.client.microgrid import Connection  # pylint: disable=import-outside-toplevel

    from frequenz.sdk.timeseries.battery_pool._methods import SendOnUpdate  # pylint: disable=import-outside-toplevel

    nbat = case["nbat"]
    bat_id = [9 + 10 * b for b in range(nbat)]
    inv_id = [8 + 10 * b for b in range(nbat)]
    v.labels.add("pipeline")
    max_age = 2.0  # MAX_BATTERY_DATA_AGE_SEC
    cache: dict[int, dict[str, Any] | None] = {b: None for b in range(nbat)}
    armed: dict[int, float] = {}
    working = set(range(nbat))

    def expire(now: float) -> None:
        for b in range(nbat):
            while armed[b] + max_age <= now:
                armed[b] += max_age
                cache[b] = {"cap": None, "lo": None, "hi": None, "soc": None}
                v.labels.add("data_timeout")

    def expected() -> tuple[Fr | None, Fr | None, int, int]:
        recs = []
        for b in range(nbat):
            c = cache[b]
            recs.append({"cap": None, "lo": None, "hi": None, "soc": None, **(c or {}),
                         "in_data": c is not None, "working": b in working})
        return _reference(recs)

    async def scenario() -> None:
        loop = asyncio.get_running_loop()
        comps = {fakes.grid(1)}
        conns = set()
        for b in range(nbat):
            comps |= {fakes.bat_inverter(inv_id[b]), fakes.battery(bat_id[b])}
            conns |= {Connection(1, inv_id[b]), Connection(inv_id[b], bat_id[b])}
        api = fakes.FakeApi(comps, conns)
        with fakes.connection(fakes.build_graph(comps, conns), api):
            calc: Any = SoCCalculator(set(bat_id)) if case["metric"] == "soc" else CapacityCalculator(set(bat_id))
            agg = SendOnUpdate(working_batteries=set(bat_id), metric_calculator=calc,
                               min_update_interval=timedelta(seconds=0.05))
            rx = agg.new_receiver(limit=10000)
            await world.settle(2)
            for b in range(nbat):
                armed[b] = loop.time()
            latest: Any = None
            got_any = False
            last_rec: dict[int, Any] = {}
            flat_ops: list[Any] = []
            for op in case["ops"]:
                if op[0] == "blip":
                    off = op[1] % nbat
                    flat_ops += [["work", [b != off for b in range(4)]], ["work", [True] * 4], ["again", off]]
                elif op[0] == "drift":
                    flat_ops += [["step", op[1], op[2]]] * 25
                else:
                    flat_ops.append(op)
            for step, op in enumerate(flat_ops):
                where = f"step {step} {op[0]}"
                if op[0] == "step":
                    b = op[1] % nbat
                    if b not in last_rec or last_rec[b]["soc"] is None or last_rec[b]["cap"] is None:
                        continue
                    rec = dict(last_rec[b])
                    rec["soc"] = float(rec["soc"]) * (1.0 + op[2])
                    rec["cap"] = float(rec["cap"]) * (1.0 + op[2])
                    op = ["msg", b, rec, "fast"]
                    v.labels.add("slow_drift_of_one_battery")
                if op[0] == "again":
                    if op[1] % nbat not in last_rec:
                        continue
                    op = ["msg", op[1], last_rec[op[1] % nbat]]
                    v.labels.add("unchanged_message_repeated")
                    if cache[op[1] % nbat] is None:
                        v.labels.add("unchanged_message_after_status_blip")
                if op[0] == "msg":
                    b = op[1] % nbat
                    rec = op[2]
                    last_rec[b] = rec
                    nan = float("nan")
                    await api.send(bat_id[b], fakes.battery_data(
                        bat_id[b], world.now(),
                        capacity=nan if rec["cap"] is None else float(rec["cap"]),
                        soc=nan if rec["soc"] is None else float(rec["soc"]),
                        soc_lower_bound=nan if rec["lo"] is None else float(rec["lo"]),
                        soc_upper_bound=nan if rec["hi"] is None else float(rec["hi"])))
                    expire(loop.time())
                    cache[b] = {k: rec[k] for k in ("cap", "lo", "hi", "soc")}
                    armed[b] = loop.time()
                    if None in cache[b].values():
                        v.labels.add("nan_metric_in_message")
                elif op[0] == "work":
                    new = {b for b in range(nbat) if op[1][b]}
                    expire(loop.time())
                    for b in working - new:
                        cache[b] = None
                    if working - new:
                        v.labels.add("battery_stops_working")
                    working.clear()
                    working.update(new)
                    agg.update_working_batteries({bat_id[b] for b in new})
                else:
                    await asyncio.sleep(op[1])
                # let the aggregator flush (first output only after WAIT_FOR_COMPONENT_DATA_SEC = 2 s)
                await asyncio.sleep((0.06 if len(op) > 3 else 0.2) if loop.time() > 2.5 else 2.6 - loop.time())
                await world.settle(2)
                expire(loop.time())
                while True:
                    try:
                        latest = await asyncio.wait_for(rx.receive(), timeout=1e-6)
                        got_any = True
                    except asyncio.TimeoutError:
                        break
                soc_ref, cap_ref, _, _ = expected()
                ref = soc_ref if case["metric"] == "soc" else cap_ref
                if not got_any:
                    if ref is not None:
                        v.fail(f"{where}: nothing emitted although the documented aggregate is {float(ref)}")
                        break
                    continue
                got = None
                if latest.value is not None:
                    got = latest.value.as_percent() if case["metric"] == "soc" else latest.value.as_watt_hours()
                if (got is None) != (ref is None):
                    v.fail(f"{where}: latest emitted {case['metric']} is {got}, documented aggregate of the cached data of the "
                           f"working batteries is {None if ref is None else float(ref)} (cache {cache}, working {sorted(working)})")
                    break
                if got is not None and ref is not None:
                    if case["metric"] == "soc":
                        if not 0.0 <= got <= 100.0:
                            v.fail(f"{where}: SoC {got} outside [0, 100]")
                            break
                        if ref >= 0 and abs(got - float(ref)) > TOL:
                            v.fail(f"{where}: latest emitted SoC {got!r} != documented weighted mean {float(ref)!r} "
                                   f"(cache {cache}, working {sorted(working)})")
                            break
                    elif abs(got - float(ref)) > 1e-9 * max(1.0, abs(float(ref))):
                        v.fail(f"{where}: latest emitted capacity {got!r} != documented sum {float(ref)!r}")
                        break
            await agg.stop()

    world.run(scenario)
    v.nontrivial = bool(v.labels & {"nan_metric_in_message", "battery_stops_working", "data_timeout"})


def run_case(case: Any, pid: str) -> Verdict:
    v = Verdict()
    if case.get("kind") == "pipeline":
        _run_pipeline(case, v)
        return v
    bats = case["bats"]
    # one pair of calculator instances serves every evaluation of the case (base, bumped, scaled, base again)
    calcs = (SoCCalculator(set(range(len(bats)))), CapacityCalculator(set(range(len(bats)))))
    try:
        soc, cap = _calc(bats, calcs)
    except Exception as exc:  # pylint: disable=broad-except
        v.fail(f"calculator raised {type(exc).__name__}: {exc}")
        return v
    soc_ref, cap_ref, n_soc, n_cap = _reference(bats)

    # reference agreement
    if (soc is None) != (soc_ref is None):
        v.fail(f"SoC None-ness: got {soc}, reference {soc_ref} ({n_soc} qualifying batteries)")
    elif soc is not None and soc_ref is not None:
        if not (0.0 <= soc <= 100.0) or math.isnan(soc):
            v.fail(f"SoC {soc} outside [0, 100]")
        if soc_ref >= 0 and abs(soc - float(soc_ref)) > TOL:
            v.fail(f"SoC {soc!r} != documented weighted mean {float(soc_ref)!r}")
    if (cap is None) != (cap_ref is None):
        v.fail(f"capacity None-ness: got {cap}, reference {cap_ref} ({n_cap} qualifying batteries)")
    elif cap is not None and cap_ref is not None:
        if abs(cap - float(cap_ref)) > 1e-9 * max(1.0, abs(float(cap_ref))):
            v.fail(f"capacity {cap!r} != documented sum {float(cap_ref)!r}")

    # metamorphic: raising one battery's SoC never lowers the pool SoC
    idx, delta = case["bump"]
    idx %= len(bats)
    if bats[idx]["soc"] is not None and delta > 0:
        bumped = [dict(b) for b in bats]
        bumped[idx]["soc"] = bats[idx]["soc"] + delta
        soc2, cap2 = _calc(bumped, calcs)
        if (soc2 is None) != (soc is None):
            v.fail("raising a SoC changed None-ness of the pool SoC")
        elif soc is not None and soc2 is not None and soc2 < soc - TOL:
            v.fail(f"pool SoC decreased from {soc} to {soc2} when battery {idx} SoC rose by {delta}")
        if cap2 != cap:
            v.fail("capacity depends on SoC")
        v.labels.add("bump_applied")

    # metamorphic: common capacity scale factor
    k = case["scale"]
    scaled = [dict(b) for b in bats]
    for b in scaled:
        if b["cap"] is not None:
            b["cap"] = b["cap"] * k
    soc3, cap3 = _calc(scaled, calcs)
    if (soc3 is None) != (soc is None) or (cap3 is None) != (cap is None):
        v.fail("scaling capacities changed None-ness")
    else:
        if soc is not None and soc3 is not None and abs(soc3 - soc) > TOL:
            v.fail(f"pool SoC changed from {soc} to {soc3} when all capacities were scaled by {k}")
        if cap is not None and cap3 is not None and abs(cap3 - k * cap) > 1e-9 * max(1.0, abs(k * cap)):
            v.fail(f"capacity {cap} scaled by {k} gave {cap3}")

    # metamorphic: shifting every battery's limits and SoC by a common offset changes nothing (the
    # documented formula depends on (soc - lower) / (upper - lower) only); evaluated on the same instances
    for delta in (10.0, -5.0, 0.5):
        shifted = [dict(b) for b in bats]
        for b in shifted:
            for key in ("lo", "hi", "soc"):
                if b[key] is not None:
                    b[key] = b[key] + delta
        soc5, cap5 = _calc(shifted, calcs)
        ref5, cref5, _, _ = _reference(shifted)
        if (soc5 is None) != (ref5 is None):
            v.fail(f"limits and SoC shifted by {delta}: SoC None-ness {soc5} vs reference {ref5}")
        elif soc5 is not None and ref5 is not None and ref5 >= 0 and abs(soc5 - float(ref5)) > 1e-6:
            v.fail(f"limits and SoC shifted by {delta}: SoC {soc5!r} != documented weighted mean {float(ref5)!r}")
        if (cap5 is None) != (cref5 is None) or (
                cap5 is not None and cref5 is not None and abs(cap5 - float(cref5)) > 1e-6 * max(1.0, abs(float(cref5)))):
            v.fail(f"limits and SoC shifted by {delta}: capacity {cap5} != documented sum {None if cref5 is None else float(cref5)}")
        if v.violations:
            break

    # the same instances asked again for the original data must answer the same
    soc4, cap4 = _calc(bats, calcs)
    if (soc4, cap4) != (soc, cap) and not (soc4 != soc4 and soc != soc):
        v.fail(f"the same calculators return ({soc4}, {cap4}) for data they answered with ({soc}, {cap}) before")

    # classification
    qual = [b for b in bats if b["working"] and b["in_data"] and None not in (b["cap"], b["lo"], b["hi"], b["soc"])]
    disq = len(bats) - len(qual)
    if len(qual) >= 2:
        v.labels.add("multi_qualifying")
    if disq and qual:
        v.labels.add("disqualified")
    if any(b["lo"] == b["hi"] for b in qual):
        v.labels.add("equal_limits")
    if any(b["soc"] < b["lo"] or b["soc"] > b["hi"] for b in qual):
        v.labels.add("soc_outside_limits")
    if soc_ref is not None and soc_ref < 0:
        v.labels.add("zero_total")
    if soc_ref is None:
        v.labels.add("none_result")
    limits = {(b["lo"], b["hi"]) for b in qual}
    v.nontrivial = (len(qual) >= 2 and len(limits) >= 2) or bool(disq and qual) or (soc_ref is not None and soc_ref < 0)
    return v


def describe(case: Any) -> Any:
    if case.get("kind") == "pipeline":
        return case
    return {
        "batteries": [
            {k: b[k] for k in ("cap", "lo", "hi", "soc", "in_data", "working")} for b in case["bats"]
        ],
        "bump": case["bump"],
        "scale": case["scale"],
    }
