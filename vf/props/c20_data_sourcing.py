"""C20 — each component message reaches every subscribed metric stream exactly once.

A real DataSourcingActor / MicrogridApiSource runs on the fake API; the harness interleaves
subscription requests (new, duplicate, unknown component) with data messages and
quiescence barriers and reads the registry channels a consumer would read.
"""

from __future__ import annotations

import asyncio
from datetime import timedelta
from typing import Any

from hypothesis import strategies as st

from frequenz.channels import Broadcast
from frequenz.client.microgrid import ComponentMetricId as M
from frequenz.quantities import Quantity
from frequenz.sdk._internal._channels import ChannelRegistry
from frequenz.sdk.microgrid._data_sourcing import ComponentMetricRequest, DataSourcingActor
from frequenz.sdk.timeseries import Sample

from .. import fakes, world
from ..core import Verdict

IDS = ("C20",)
BUDGET = {"quick": 2500, "thorough": 8000}
SIZE_BOUNDS = {"quick": "1-3 components of 4 categories, <= 40 operations", "thorough": "1-4 components, <= 120 operations"}
RULE = {
    "C20": (
        "Hypothesis-generated schedules for a real DataSourcingActor on the fake API: subscribe(namespace, component, metric) with "
        "metrics valid for the category (meter / battery inverter / battery / EV charger), repeated identical requests and "
        "requests for unknown components, message(component) where message k carries value(metric) = 100*k + metric index and "
        "timestamp T0 + k s, quiescence barriers, and bursts of both without a barrier. Oracle per subscription: the received "
        "sequence is k0, k0+1, ... up to the last message sent for the component (no loss, duplicate or reordering), every sample "
        "carries the message's timestamp and its own metric's value, and k0 lies between the first message sent after the last "
        "barrier preceding the request and the first message sent after the barrier following it; duplicate requests and unknown "
        "components change nothing. Non-trivial = a subscribe for a component arrives between two of its messages with no barrier "
        "in between while another subscription on it is active; distinct by SHA-1 of the canonical JSON case."
    )
}
ASSUMPTIONS = [
    "a message still queued in the API receiver when a request is processed may legitimately reach the new subscriber: the "
    "lower limit for its first message is the last barrier before the request",
    "at most 30 messages are sent between two barriers (the API receiver buffers 50; overflow drops are documented behaviour)",
]
MIN_LABELS = {"C20": {"subscribe_mid_stream_no_barrier": 0.05, "subscribe_mid_stream_other_subscription_active": 0.01, "duplicate_request": 0.1, "unknown_component": 0.1,
                      "multi_category": 0.3}}

CATS = {
    "meter": (fakes.meter, fakes.meter_data, [
        (M.ACTIVE_POWER, lambda x: {"active_power": x}),
        (M.VOLTAGE_PHASE_1, lambda x: {"voltage_per_phase": (x, 0.0, 0.0)}),
        (M.FREQUENCY, lambda x: {"frequency": x}),
        (M.CURRENT_PHASE_2, lambda x: {"current_per_phase": (0.0, x, 0.0)}),
    ]),
    "inverter": (fakes.bat_inverter, fakes.inverter_data, [
        (M.ACTIVE_POWER, lambda x: {"active_power": x}),
        (M.FREQUENCY, lambda x: {"frequency": x}),
        (M.ACTIVE_POWER_INCLUSION_LOWER_BOUND, lambda x: {"active_power_inclusion_lower_bound": x}),
        (M.REACTIVE_POWER, lambda x: {"reactive_power": x}),
    ]),
    "battery": (fakes.battery, fakes.battery_data, [
        (M.SOC, lambda x: {"soc": x}),
        (M.CAPACITY, lambda x: {"capacity": x}),
        (M.POWER_INCLUSION_UPPER_BOUND, lambda x: {"power_inclusion_upper_bound": x}),
        (M.TEMPERATURE, lambda x: {"temperature": x}),
    ]),
    "ev": (fakes.ev_charger, fakes.ev_charger_data, [
        (M.ACTIVE_POWER, lambda x: {"active_power": x}),
        (M.CURRENT_PHASE_1, lambda x: {"current_per_phase": (x, 0.0, 0.0)}),
        (M.FREQUENCY, lambda x: {"frequency": x}),
        (M.VOLTAGE_PHASE_3, lambda x: {"voltage_per_phase": (0.0, 0.0, x)}),
    ]),
}
CAT_NAMES = sorted(CATS)


def strategy(tier: str, pid: str = "C20") -> st.SearchStrategy[Any]:
    del pid
    max_ops, max_comps = (40, 3) if tier == "quick" else (120, 4)
    sub = st.tuples(st.just("sub"), st.integers(0, 3), st.sampled_from(["a", "a2", "b"]), st.integers(0, 3)).map(list)
    # third element: index of a metric that this message reports as NaN (-1: all finite)
    msg = st.tuples(st.just("msg"), st.integers(0, 3), st.sampled_from([-1, -1, -1, -1, 0, 1, 2, 3])).map(list)
    op = st.one_of(
        sub, sub, sub, msg, msg, msg, msg, msg, msg,
        st.just(["settle"]),
        st.tuples(st.just("sub_unknown"), st.sampled_from(["a", "b"]), st.integers(0, 3)).map(list),
    )
    return st.fixed_dictionaries({
        "comps": st.lists(st.sampled_from(CAT_NAMES), min_size=1, max_size=max_comps),
        "ops": st.lists(op, min_size=5, max_size=max_ops),
    })


def run_case(case: Any, pid: str) -> Verdict:
    del pid
    v = Verdict()
    comps = case["comps"]
    ncomp = len(comps)
    # ids and namespaces chosen so that concatenations can coincide ("a2" + "20" == "a" + "220"): channel names must not
    cid_of = [20, 220, 2, 21][:ncomp]
    flags = {"mid": False, "dup": False, "mid_others": False}
    subs: dict[str, dict[str, Any]] = {}
    sent: dict[int, int] = {c: 0 for c in range(ncomp)}  # messages sent per component
    nan_at: dict[tuple[int, int], int] = {}  # (component, message number) -> metric index reported as NaN
    unknown_rx: list[Any] = []

    async def scenario() -> None:
        components = {fakes.grid(1)} | {CATS[comps[i]][0](cid_of[i]) for i in range(ncomp)}
        api = fakes.FakeApi(components, set())
        with fakes.connection(None, api):
            registry = ChannelRegistry(name="c20")
            requests: Any = Broadcast(name="requests")
            actor = DataSourcingActor(requests.new_receiver(limit=10000), registry)
            actor.start()
            await world.settle(2)
            req_tx = requests.new_sender()
            settled_at: dict[int, int] = {c: 0 for c in range(ncomp)}   # messages sent at the last barrier
            since_barrier = 0
            pending_hi: list[dict[str, Any]] = []

            async def barrier() -> None:
                nonlocal since_barrier
                await world.settle(2)
                since_barrier = 0
                for c in range(ncomp):
                    settled_at[c] = sent[c]
                for sub in pending_hi:
                    sub["k_hi"] = sent[sub["comp"]] + 1
                pending_hi.clear()

            for op in case["ops"]:
                if op[0] == "sub":
                    c = op[1] % ncomp
                    metric, _ = CATS[comps[c]][2][op[3]]
                    req = ComponentMetricRequest(op[2], cid_of[c], metric, None)
                    name = req.get_channel_name()
                    if name in subs:
                        flags["dup"] = True
                    else:
                        others_active = any(s["comp"] == c for s in subs.values())
                        rx = registry.get_or_create(Sample[Quantity], name).new_receiver(limit=100000)
                        subs[name] = {"rx": rx, "comp": c, "midx": op[3], "k_lo": settled_at[c] + 1, "k_hi": None,
                                      "mid": sent[c] > settled_at[c], "others": others_active}
                        pending_hi.append(subs[name])
                    await req_tx.send(req)
                elif op[0] == "sub_unknown":
                    metric = CATS["meter"][2][op[2]][0]
                    req = ComponentMetricRequest(op[1], 999, metric, None)
                    rx = registry.get_or_create(Sample[Quantity], req.get_channel_name()).new_receiver(limit=1000)
                    unknown_rx.append(rx)
                    await req_tx.send(req)
                    v.labels.add("unknown_component")
                elif op[0] == "msg":
                    c = op[1] % ncomp
                    sent[c] += 1
                    k = sent[c]
                    kwargs: dict[str, Any] = {}
                    nan_idx = op[2] if len(op) > 2 else -1
                    if nan_idx >= 0:
                        nan_at[(c, k)] = nan_idx
                        v.labels.add("message_with_a_nan_metric")
                    for midx, (_, setter) in enumerate(CATS[comps[c]][2]):
                        field = setter(float("nan") if midx == nan_idx else 100.0 * k + midx)
                        for key, val in field.items():
                            if key in kwargs and isinstance(val, tuple):
                                kwargs[key] = tuple(a if a != 0.0 else b for a, b in zip(val, kwargs[key]))
                            else:
                                kwargs[key] = val
                    await api.send(cid_of[c], CATS[comps[c]][1](cid_of[c], world.T0 + timedelta(seconds=k), **kwargs))
                    for sub in subs.values():
                        if sub["comp"] == c and sub["mid"] and sub["k_hi"] is None:
                            flags["mid"] = True
                            if sub["others"]:
                                flags["mid_others"] = True
                    since_barrier += 1
                    if since_barrier >= 30:
                        await barrier()
                else:
                    await barrier()
            await barrier()
            if not actor.is_running:
                v.fail("the DataSourcingActor stopped running")
            for name, sub in subs.items():
                got = []
                while True:
                    try:
                        got.append(await asyncio.wait_for(sub["rx"].receive(), timeout=1e-6))
                    except asyncio.TimeoutError:
                        break
                sub["got"] = got
            for rx in unknown_rx:
                try:
                    extra = await asyncio.wait_for(rx.receive(), timeout=1e-6)
                    v.fail(f"a stream requested for an unknown component received {extra}")
                except asyncio.TimeoutError:
                    pass
            await actor.stop()

    world.run(scenario)
    for name, sub in subs.items():
        c, midx = sub["comp"], sub["midx"]
        ks = []
        for s in sub["got"]:
            # the message is identified by its timestamp (T0 + k s), the metric by the value
            k = round((s.timestamp - world.T0).total_seconds())
            ks.append(k)
            if s.timestamp != world.T0 + timedelta(seconds=k):
                v.fail(f"{name}: sample stamped {s.timestamp} is not the timestamp of any message")
                continue
            if s.value is None:
                v.fail(f"{name}: sample of message {k} has no value (the message carried "
                       f"{'NaN' if nan_at.get((c, k)) == midx else 100.0 * k + midx} for this metric)")
                continue
            raw = s.value.base_value
            if nan_at.get((c, k)) == midx:
                if raw == raw:
                    v.fail(f"{name}: message {k} carried NaN for this metric, the sample carries {raw}")
            elif raw != 100.0 * k + midx:
                v.fail(f"{name}: sample of message {k} has value {raw}, this stream's metric (index {midx}) was {100.0 * k + midx}")
        total = sent[c]
        k_hi = sub["k_hi"] if sub["k_hi"] is not None else total + 1
        if ks:
            if ks != list(range(ks[0], ks[0] + len(ks))):
                v.fail(f"{name}: received messages {ks} (lost, duplicated or reordered; component sent 1..{total})")
            elif ks[-1] != total:
                v.fail(f"{name}: last received message {ks[-1]} != last message sent {total}")
            if not sub["k_lo"] <= ks[0] <= k_hi:
                v.fail(f"{name}: first received message {ks[0]} outside [{sub['k_lo']}, {k_hi}] (messages processed before the "
                       f"request must not appear; messages sent after the barrier following it must)")
        elif k_hi <= total:
            v.fail(f"{name}: nothing received although messages {k_hi}..{total} were sent after the subscription was active")
    if flags["mid"]:
        v.labels.add("subscribe_mid_stream_no_barrier")
    if flags["mid_others"]:
        v.labels.add("subscribe_mid_stream_other_subscription_active")
    if flags["dup"]:
        v.labels.add("duplicate_request")
    if len(set(comps)) >= 2:
        v.labels.add("multi_category")
    v.nontrivial = flags["mid"]
    return v


def describe(case: Any) -> Any:
    return case
