"""C16 — a battery is reported usable only while its data proves it healthy.

A real BatteryStatusTracker on the fake API and a virtual clock is driven by generated
histories of battery / inverter messages (healthy or faulty in one way, fresh or stale),
silences, and set-power results; the notification stream is compared with a reference
status machine, and a one-directional safety invariant is asserted on the raw trace.
"""

from __future__ import annotations

import asyncio
import math
from datetime import datetime, timedelta
from typing import Any

from hypothesis import strategies as st

from frequenz.channels import Broadcast
from frequenz.client.microgrid import (
    BatteryComponentState,
    BatteryError,
    BatteryErrorCode,
    BatteryRelayState,
    Connection,
    ErrorLevel,
    InverterComponentState,
    InverterError,
    InverterErrorCode,
)
from frequenz.sdk.microgrid._power_distributing._component_status import (
    BatteryStatusTracker,
    ComponentPoolStatus,
    ComponentStatusEnum,
    SetPowerResult,
)

from .. import fakes, world
from ..core import Verdict

IDS = ("C16",)
BUDGET = {"quick": 4000, "thorough": 15000}
SIZE_BOUNDS = {"quick": "<= 30 events per history (<= 160 when the scripted back-off ladder is part of it)",
               "thorough": "<= 80 events per history (<= 160 with the ladder)"}
RULE = {
    "C16": (
        "Hypothesis-generated histories for a real BatteryStatusTracker (max data age 10 s, blocking 1 s doubling to 30 s) on a "
        "virtual clock: battery / inverter messages that are healthy, or faulty in exactly one way (bad component state, bad relay "
        "state, critical error, warning only, NaN capacity, timestamp older than the maximum age), set-power results naming the "
        "battery as succeeded / failed / not at all, and clock advances from {0.1, 0.9, 1, 1.1, 2, 4, 9.9, 10, 10.1, 31 s}. Oracle: "
        "(a) the notification sequence equals that of a reference status machine written from the statement (usable iff both "
        "latest messages healthy and neither stream silent for the maximum age; first usable after not-working is WORKING and "
        "unblocked; a failed result while usable blocks for d, d = 1 s, doubled if the previous block had expired, capped, reset "
        "by a success; blocked is UNCERTAIN until the first event at or after the deadline), no two equal consecutive "
        "notifications; (b) safety on the raw trace: whenever WORKING/UNCERTAIN is emitted, and at every barrier while it stands, "
        "both latest messages are healthy and arrived no more than the maximum age ago; (c) get_working_components returns "
        "uncertain components only when no working one is requested; (d) a quarter of the cases drive 2-3 batteries behind a "
        "real ComponentPoolStatusTracker and compare the pool status (working / uncertain sets) and get_working_components "
        "with one reference machine per battery after every barrier. Non-trivial = a silence >= max age, a faulty message between "
        "healthy ones and >= 2 consecutive failed results in one history; distinct by SHA-1 of the canonical JSON case."
    )
}
ASSUMPTIONS = [
    "message timestamps are fresh (= arrival time), late by 9.9 s (inside the maximum age at arrival: such a message counts as "
    "healthy, and silence is measured from its arrival, which is what the tracker does and all the safety clause demands) or "
    "older than the maximum age",
    "virtual time: data timers and blocking deadlines elapse exactly",
]
MIN_LABELS = {"C16": {"pool_tracker": 0.1, "silence_ge_max_age": 0.1, "faulty_between_healthy": 0.07, "two_consecutive_failures": 0.15,
                      "uncertain_seen": 0.3}}

MAX_AGE = 10.0
BAT_KINDS = ["ok"] * 12 + ["state", "relay", "critical", "warning", "nancap", "stale", "late", "late"]
INV_KINDS = ["ok"] * 9 + ["state", "critical", "warning", "stale", "late"]
# "late": healthy and stamped 9.9 s before its arrival, i.e. still inside the maximum age of 10 s when it arrives
HEALTHY = {"ok", "warning", "late"}
LATE = 9.9


def strategy(tier: str, pid: str = "C16") -> st.SearchStrategy[Any]:
    del pid
    adv_all = st.tuples(st.just("adv"), st.sampled_from([0.1, 0.9, 1.0, 1.1, 2.0, 4.0, 9.9, 10.0, 10.1, 31.0])).map(list)
    adv_small = st.tuples(st.just("adv"), st.sampled_from([0.1, 0.9, 1.0, 1.1, 2.0])).map(list)
    op = st.one_of(
        st.tuples(st.just("bat"), st.sampled_from(BAT_KINDS)).map(list),
        st.tuples(st.just("inv"), st.sampled_from(INV_KINDS)).map(list),
        st.tuples(st.just("res"), st.sampled_from(["failed", "failed", "failed", "succeeded", "none"])).map(list),
        st.tuples(st.just("res"), st.sampled_from(["failed", "failed", "succeeded", "none"])).map(list),
        adv_all, adv_small, adv_small,
    )
    pool_op = st.one_of(
        st.tuples(st.just("bat"), st.sampled_from(BAT_KINDS), st.integers(0, 2)).map(list),
        st.tuples(st.just("inv"), st.sampled_from(INV_KINDS), st.integers(0, 2)).map(list),
        st.tuples(st.just("res"), st.lists(st.sampled_from(["failed", "failed", "succeeded", "none"]), min_size=3, max_size=3)).map(list),
        st.tuples(st.just("res"), st.lists(st.sampled_from(["failed", "succeeded", "none"]), min_size=3, max_size=3)).map(list),
        adv_all, adv_small, adv_small,
    )
    # short scripted phrases (expanded into atomic operations) make the rarer orderings frequent: a success
    # that arrives after the block has expired, consecutive failures around the deadline, near-silences
    phrases = [
        [["res", "failed"], ["adv", 1.1], ["bat", "ok"], ["res", "succeeded"], ["res", "failed"], ["adv", 1.1], ["inv", "ok"]],
        [["res", "failed"], ["adv", 1.1], ["bat", "ok"], ["res", "failed"], ["adv", 2.1], ["inv", "ok"], ["res", "failed"],
         ["adv", 4.0], ["bat", "ok"]],
        [["res", "failed"], ["adv", 0.9], ["res", "succeeded"], ["res", "failed"], ["adv", 1.0], ["bat", "ok"]],
        [["adv", 9.9], ["bat", "ok"], ["adv", 0.2], ["inv", "ok"]],
        [["bat", "relay"], ["bat", "ok"], ["res", "failed"], ["adv", 1.1], ["inv", "ok"]],
        [["res", "failed"], ["adv", 1.1], ["inv", "ok"], ["res", "none"], ["res", "failed"], ["adv", 1.9], ["bat", "ok"],
         ["adv", 0.2], ["bat", "ok"]],
        # a steadily lagging stream: a late message (inside the maximum age), then one that is too old although its
        # timestamp is newer than the previous one's
        [["bat", "late"], ["adv", 0.9], ["bat", "stale"], ["adv", 0.1], ["inv", "ok"]],
        [["inv", "late"], ["adv", 2.0], ["inv", "stale"], ["adv", 1.0], ["bat", "ok"]],
        [["bat", "late"], ["adv", 9.9], ["inv", "ok"], ["adv", 0.2], ["inv", "ok"]],
    ]
    # the whole back-off ladder 1, 2, 4, 8, 16, 30 s (cap): each failure after the previous block expired, data kept
    # fresh in between; then a success and another failure, which must block for the minimum again
    def keep_fresh(total: float) -> list[list[Any]]:
        out: list[list[Any]] = []
        while total > 4.0:
            out += [["adv", 4.0], ["bat", "ok"], ["inv", "ok"]]
            total -= 4.0
        return out + [["adv", round(total, 3)], ["bat", "ok"], ["inv", "ok"]]

    ladder: list[list[Any]] = []
    for d in (1.0, 2.0, 4.0, 8.0, 16.0, 30.0):
        ladder += [["res", "failed"]] + keep_fresh(d + 0.1)
    phrases.append(ladder + [["res", "succeeded"], ["res", "failed"], ["adv", 1.1], ["bat", "ok"], ["inv", "ok"]])
    phrases.append(ladder[: len(ladder) // 2] + [["res", "succeeded"], ["res", "failed"], ["adv", 1.1], ["bat", "ok"]])
    phrase = st.sampled_from(phrases)
    nops = 30 if tier == "quick" else 80
    pool_status = st.fixed_dictionaries({
        "working": st.sets(st.integers(1, 5)), "uncertain": st.sets(st.integers(1, 5)),
        "asked": st.sets(st.integers(1, 6)),
    }).map(lambda d: {k: sorted(x) for k, x in d.items()})
    def flatten(items: list[Any]) -> list[Any]:
        out: list[Any] = [["bat", "ok"], ["inv", "ok"]]
        for item in items:
            out += item if item and isinstance(item[0], list) else [item]
        # histories are cut at nops atomic operations, except when they contain the (long) back-off ladder
        return out[: (nops + 2) if not any(item and isinstance(item[0], list) and len(item) > 20 for item in items) else 160]

    single = st.fixed_dictionaries({
        "rewired": st.sampled_from([False, False, False, True]),
        "ops": st.lists(st.one_of(op, op, op, op, phrase), min_size=4, max_size=nops).map(flatten),
        "pool": pool_status,
    })
    pool = st.fixed_dictionaries({
        "nbat": st.integers(2, 3),
        "ops": st.lists(pool_op, min_size=4, max_size=nops).map(
            lambda ops: [["bat", "ok", 0], ["inv", "ok", 0], ["bat", "ok", 1], ["inv", "ok", 1]] + ops),
        "pool": pool_status,
    })
    return st.one_of(single, single, single, pool)


def _bat_msg(kind: str, now: datetime, cid: int = 9) -> Any:
    kw: dict[str, Any] = {}
    if kind == "state":
        kw["component_state"] = BatteryComponentState.ERROR
    elif kind == "relay":
        kw["relay_state"] = BatteryRelayState.OPENED
    elif kind == "critical":
        kw["errors"] = [BatteryError(code=BatteryErrorCode.UNSPECIFIED, level=ErrorLevel.CRITICAL, message="generated")]
    elif kind == "warning":
        kw["errors"] = [BatteryError(code=BatteryErrorCode.UNSPECIFIED, level=ErrorLevel.WARN, message="generated")]
    elif kind == "nancap":
        kw["capacity"] = math.nan
    ts = now - timedelta(seconds=MAX_AGE + 0.5) if kind == "stale" else now - timedelta(seconds=LATE) if kind == "late" else now
    return fakes.battery_data(cid, ts, **kw)


def _inv_msg(kind: str, now: datetime, cid: int = 8) -> Any:
    kw: dict[str, Any] = {}
    if kind == "state":
        kw["component_state"] = InverterComponentState.ERROR
    elif kind == "critical":
        kw["errors"] = [InverterError(code=InverterErrorCode.UNSPECIFIED, level=ErrorLevel.CRITICAL, message="generated")]
    elif kind == "warning":
        kw["errors"] = [InverterError(code=InverterErrorCode.UNSPECIFIED, level=ErrorLevel.WARN, message="generated")]
    ts = now - timedelta(seconds=MAX_AGE + 0.5) if kind == "stale" else now - timedelta(seconds=LATE) if kind == "late" else now
    return fakes.inverter_data(cid, ts, **kw)


class _Model:
    """Reference status machine (times in integer microseconds of virtual time)."""

    def __init__(self) -> None:
        self.ok = {"bat": False, "inv": False}
        self.arrival: dict[str, int | None] = {"bat": None, "inv": None}
        self.status = "NOT_WORKING"
        self.blocked_until: int | None = None
        self.last_dur = 1_000_000
        self.out: list[str] = []
        self.doubled = False

    def _evaluate(self, now: int) -> None:
        if not (self.ok["bat"] and self.ok["inv"]):
            new = "NOT_WORKING"
        elif self.status == "NOT_WORKING":
            self.blocked_until = None
            new = "WORKING"
        elif self.blocked_until is not None and self.blocked_until > now:
            new = "UNCERTAIN"
        else:
            new = "WORKING"
        if new != self.status:
            self.status = new
            self.out.append(new)

    def silence(self, now: int) -> None:
        """Fire the data timers that are due (a stream silent for the maximum age)."""
        due = sorted((self.arrival[s] + int(MAX_AGE * 1e6), s) for s in ("bat", "inv")  # type: ignore[operator]
                     if self.arrival[s] is not None and self.arrival[s] + int(MAX_AGE * 1e6) <= now)  # type: ignore[operator]
        for when, stream in due:
            self.arrival[stream] = None  # later firings change nothing: the stream is already not ok
            self.ok[stream] = False
            self._evaluate(when)

    def message(self, stream: str, healthy: bool, now: int) -> None:
        self.silence(now)
        self.ok[stream] = healthy
        self.arrival[stream] = now
        self._evaluate(now)

    def result(self, kind: str, now: int) -> None:
        self.silence(now)
        if kind == "succeeded":
            self.blocked_until = None
        elif kind == "failed" and self.status != "NOT_WORKING":
            if self.blocked_until is None:
                self.last_dur = 1_000_000
                self.blocked_until = now + self.last_dur
            elif self.blocked_until <= now:
                self.last_dur = min(2 * self.last_dur, 30_000_000)
                self.doubled = True
                self.blocked_until = now + self.last_dur
        self._evaluate(now)


def _run_pool(case: dict[str, Any], v: Verdict) -> None:
    """2-3 batteries behind a real ComponentPoolStatusTracker: pool status vs per-battery reference machines."""
    from frequenz.sdk.microgrid._power_distributing._component_pool_status_tracker import (  # pylint: disable=import-outside-toplevel
        ComponentPoolStatusTracker,
    )

    nbat = case["nbat"]
    bat_id = [9 + 10 * b for b in range(nbat)]
    inv_id = [8 + 10 * b for b in range(nbat)]
    models = [_Model() for _ in range(nbat)]
    v.labels.add("pool_tracker")

    async def scenario() -> None:
        loop = asyncio.get_running_loop()

        def now_us() -> int:
            return round(loop.time() * 1e6)

        comps = {fakes.grid(1)}
        conns = set()
        for b in range(nbat):
            comps |= {fakes.bat_inverter(inv_id[b]), fakes.battery(bat_id[b])}
            conns |= {Connection(1, inv_id[b]), Connection(inv_id[b], bat_id[b])}
        api = fakes.FakeApi(comps, conns)
        with fakes.connection(fakes.build_graph(comps, conns), api):
            status_chan: Any = Broadcast(name="pool-status")
            status_rx = status_chan.new_receiver(limit=100000)
            tracker = ComponentPoolStatusTracker(
                component_ids=set(bat_id), component_status_sender=status_chan.new_sender(),
                max_data_age=timedelta(seconds=MAX_AGE), max_blocking_duration=timedelta(seconds=30.0),
                component_status_tracker_type=BatteryStatusTracker)
            await world.settle(3)
            latest: Any = None
            for step, op in enumerate(case["ops"]):
                where = f"step {step} {op}"
                t = now_us()
                if op[0] == "bat":
                    b = op[2] % nbat
                    await api.send(bat_id[b], _bat_msg(op[1], world.now(), bat_id[b]))
                    models[b].message("bat", op[1] in HEALTHY, t)
                elif op[0] == "inv":
                    b = op[2] % nbat
                    await api.send(inv_id[b], _inv_msg(op[1], world.now(), inv_id[b]))
                    models[b].message("inv", op[1] in HEALTHY, t)
                elif op[0] == "res":
                    succeeded = {bat_id[b] for b in range(nbat) if op[1][b] == "succeeded"}
                    failed = {bat_id[b] for b in range(nbat) if op[1][b] == "failed"}
                    await tracker.update_status(succeeded, failed)
                    for b in range(nbat):
                        models[b].result(op[1][b], t)
                else:
                    await asyncio.sleep(op[1])
                await world.settle(2)
                for m in models:
                    m.silence(now_us())
                while True:
                    try:
                        latest = await asyncio.wait_for(status_rx.receive(), timeout=1e-6)
                    except asyncio.TimeoutError:
                        break
                want_working = {bat_id[b] for b in range(nbat) if models[b].status == "WORKING"}
                want_uncertain = {bat_id[b] for b in range(nbat) if models[b].status == "UNCERTAIN"}
                got_working = set() if latest is None else set(latest.working)
                got_uncertain = set() if latest is None else set(latest.uncertain)
                if (got_working, got_uncertain) != (want_working, want_uncertain):
                    v.fail(f"{where}: pool status working={sorted(got_working)} uncertain={sorted(got_uncertain)}, the reference "
                           f"machines say working={sorted(want_working)} uncertain={sorted(want_uncertain)}")
                    break
                usable = tracker.get_working_components(set(bat_id))
                if set(usable) != (want_working or want_uncertain):
                    v.fail(f"{where}: get_working_components = {sorted(usable)}, expected {sorted(want_working or want_uncertain)}")
                    break
                if want_uncertain and want_working:
                    v.labels.add("pool_mixed_working_and_uncertain")
            await tracker.stop()

    world.run(scenario)
    if any("UNCERTAIN" in m.out for m in models):
        v.labels.add("uncertain_seen")
    if any(m.doubled for m in models):
        v.labels.add("blocking_doubled")
    v.nontrivial = any("UNCERTAIN" in m.out for m in models) and any("NOT_WORKING" in m.out for m in models)


def run_case(case: Any, pid: str) -> Verdict:
    del pid
    v = Verdict()
    if "nbat" in case:
        _run_pool(case, v)
        return v
    # (c) pure function
    pool = case["pool"]
    got = ComponentPoolStatus(set(pool["working"]), set(pool["uncertain"])).get_working_components(set(pool["asked"]))
    want = set(pool["working"]) & set(pool["asked"]) or set(pool["uncertain"]) & set(pool["asked"])
    if got != want:
        v.fail(f"get_working_components({pool}) = {sorted(got)}, expected {sorted(want)}")

    model = _Model()
    notes: list[tuple[int, str]] = []
    latest: dict[str, tuple[int, bool] | None] = {"bat": None, "inv": None}
    flags = {"silence": False, "faulty_between": False, "consec_fail": 0, "max_consec_fail": 0}
    last_kinds: dict[str, list[bool]] = {"bat": [], "inv": []}

    async def scenario() -> None:
        loop = asyncio.get_running_loop()

        def now_us() -> int:
            return round(loop.time() * 1e6)

        comps = {fakes.grid(1), fakes.bat_inverter(8), fakes.battery(9)}
        conns = {Connection(1, 8), Connection(8, 9)}
        api = fakes.FakeApi(comps, conns)
        graph = fakes.build_graph(comps, conns)
        if case.get("rewired"):
            # the topology was different earlier (battery 9 behind another inverter), was queried, and has been refreshed
            # to the present one before the tracker is created: the tracker must follow the present inverter
            old_comps = comps | {fakes.bat_inverter(18)}
            graph = fakes.build_graph(old_comps, {Connection(1, 8), Connection(1, 18), Connection(18, 9)})
            graph.predecessors(9)
            graph.successors(18)
            graph.refresh_from(comps, conns)
            v.labels.add("topology_refreshed_before_the_tracker_was_created")
        with fakes.connection(graph, api):
            status_chan: Any = Broadcast(name="status")
            results_chan: Any = Broadcast(name="results")
            status_rx = status_chan.new_receiver(limit=10000)
            tracker = BatteryStatusTracker(9, timedelta(seconds=MAX_AGE), timedelta(seconds=30.0),
                                           status_chan.new_sender(), results_chan.new_receiver(limit=1000))
            tracker.start()

            async def collect() -> None:
                async for msg in status_rx:
                    notes.append((now_us(), msg.value.name))

            collector = asyncio.create_task(collect())
            await world.settle(2)
            res_tx = results_chan.new_sender()

            def safety(where: str, at: int) -> bool:
                standing = notes[-1][1] if notes else "NOT_WORKING"
                if standing == "NOT_WORKING":
                    return True
                for stream in ("bat", "inv"):
                    info = latest[stream]
                    if info is None or not info[1]:
                        v.fail(f"{where}: status {standing} stands at t={at / 1e6}s but the latest {stream} message is "
                               f"{'absent' if info is None else 'not healthy'}")
                        return False
                    if at - info[0] > int(MAX_AGE * 1e6) + 5:
                        v.fail(f"{where}: status {standing} stands at t={at / 1e6}s but the latest {stream} message arrived "
                               f"{(at - info[0]) / 1e6}s ago (max data age {MAX_AGE}s)")
                        return False
                return True

            for step, op in enumerate(case["ops"]):
                where = f"step {step} {op}"
                t = now_us()
                if op[0] == "bat":
                    healthy = op[1] in HEALTHY
                    await api.send(9, _bat_msg(op[1], world.now()))
                    model.message("bat", healthy, t)
                    latest["bat"] = (t, healthy)
                    last_kinds["bat"].append(healthy)
                elif op[0] == "inv":
                    healthy = op[1] in HEALTHY
                    await api.send(8, _inv_msg(op[1], world.now()))
                    model.message("inv", healthy, t)
                    latest["inv"] = (t, healthy)
                    last_kinds["inv"].append(healthy)
                elif op[0] == "res":
                    succeeded = {9} if op[1] == "succeeded" else set()
                    failed = {9} if op[1] == "failed" else set()
                    await res_tx.send(SetPowerResult(succeeded=succeeded, failed=failed))
                    model.result(op[1], t)
                    if op[1] == "failed":
                        flags["consec_fail"] += 1
                        flags["max_consec_fail"] = max(flags["max_consec_fail"], flags["consec_fail"])
                    elif op[1] == "succeeded":
                        flags["consec_fail"] = 0
                else:
                    await asyncio.sleep(op[1])
                    if op[1] >= MAX_AGE:
                        flags["silence"] = True
                await world.settle()
                model.silence(now_us())
                # (b) safety at every emission of this step and at the barrier
                got_seq = [s for _, s in notes]
                for (when, status), prev in zip(notes, [None] + got_seq[:-1]):
                    if status == prev:
                        v.fail(f"{where}: two consecutive identical notifications {status} at t={when / 1e6}s")
                        return
                if not safety(where, now_us()):
                    return
                if got_seq != model.out:
                    v.fail(f"{where}: notifications so far {got_seq}, the reference status machine expects {model.out}")
                    return
            collector.cancel()
            await tracker.stop()

    world.run(scenario)
    for stream in ("bat", "inv"):
        ks = last_kinds[stream]
        if any(ks[i] and not ks[i + 1] and any(ks[i + 2:]) for i in range(len(ks) - 2)):
            flags["faulty_between"] = True
    if flags["silence"]:
        v.labels.add("silence_ge_max_age")
    if flags["faulty_between"]:
        v.labels.add("faulty_between_healthy")
    if flags["max_consec_fail"] >= 2:
        v.labels.add("two_consecutive_failures")
    if "UNCERTAIN" in model.out:
        v.labels.add("uncertain_seen")
    if model.doubled:
        v.labels.add("blocking_doubled")
    if "WORKING" in model.out:
        v.labels.add("working_seen")
    v.nontrivial = flags["silence"] and flags["faulty_between"] and flags["max_consec_fail"] >= 2
    return v


def describe(case: Any) -> Any:
    return case
