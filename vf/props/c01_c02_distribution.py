"""C01 / C02 — battery power distribution: conservation and bounds.

One harness, two verdicts.  Driver (a): BatteryDistributionAlgorithm.distribute_power on
generated InvBatPair data; driver (b): the same data through a real BatteryManager on the
fake API (set_power calls and Result observed).
"""

from __future__ import annotations

from typing import Any

from hypothesis import strategies as st

from frequenz.sdk.microgrid._power_distributing._distribution_algorithm import (
    AggregatedBatteryData,
    BatteryDistributionAlgorithm,
    InvBatPair,
)
from frequenz.sdk.microgrid._power_distributing.result import PartialFailure, Success

from .. import batsys, world
from ..core import Verdict

IDS = ("C01", "C02")
BUDGET = {"quick": 2500, "thorough": 15000}
SIZE_BOUNDS = {
    "quick": "1-4 groups x 1-3 batteries x 1-3 inverters; bounds <= 5000 W; exponent in [0,4]; 4% of cases through BatteryManager",
    "thorough": "1-6 groups, same component ranges",
}
_GEN = (
    "Hypothesis-generated battery groups (k batteries behind m inverters; capacity 1..1e6; SoC on/inside/beyond its "
    "limits incl. equal limits; inclusion bounds from ints and floats; exclusion bounds drawn as a fraction of the room "
    "the inclusion bounds leave so that the group minimum power never exceeds the group inclusion bound), exponent from "
    "{0,0.5,1,2,3,float}, request = exactly the advertised exclusion bound / exactly the inclusion bound / between / "
    "beyond the inclusion bound, both signs; driven through distribute_power directly and (4%) through a real "
    "BatteryManager on a fake API. "
)
RULE = {
    "C01": _GEN + "Oracle: sum(set-points)+remainder == request (1e-6 rel), signs, |remainder| <= |request|; via the "
    "manager also sum(set_power) == succeeded_power and succeeded+excess == requested. Non-trivial = >=2 groups and "
    "(some group min power > 0 or zero headroom or proportional share below min power or request beyond inclusion or "
    "a multi-inverter group); distinct by SHA-1 of the canonical JSON case.",
    "C02": _GEN + "Oracle: every set-point is 0 or inside the inverter's inclusion bounds and not strictly inside its "
    "exclusion zone; every group total is 0 or inside the aggregated battery inclusion bounds and not strictly inside "
    "the aggregated battery exclusion zone; a group without SoC headroom in the requested direction gets 0. "
    "Non-trivial as for C01; distinct by SHA-1 of the canonical JSON case.",
}
ASSUMPTIONS = [
    "absolute/relative tolerance 1e-6 W, applied on the permissive side only",
    "advertised bounds are recomputed by the harness with the documented aggregation (sum over groups of "
    "min/max of aggregated battery bounds and summed inverter bounds) to choose admitted requests",
    "via the manager: exponent is hard-wired to 1.0; all components reported working",
]
MIN_LABELS = {
    "C01": {"min_power": 0.2, "zero_headroom": 0.1, "share_below_min": 0.03, "beyond_incl": 0.1, "multi_inverter": 0.2,
            "several_shares_below_min_with_donor": 0.05},
    "C02": {"min_power": 0.2, "zero_headroom": 0.1, "share_below_min": 0.03, "beyond_incl": 0.1, "multi_inverter": 0.2,
            "several_shares_below_min_with_donor": 0.05},
}


def strategy(tier: str, pid: str = "C01") -> st.SearchStrategy[Any]:
    del pid
    max_groups = 5 if tier == "quick" else 7
    return st.fixed_dictionaries({
        "groups": batsys.groups(max_groups=max_groups, stress_pct=40),
        "exp": st.one_of(st.sampled_from([0.0, 0.5, 1.0, 1.0, 2.0, 3.0]), st.floats(0.0, 4.0)),
        "req": batsys.request_strategy(),
        "mode": st.sampled_from(["direct"] * 22 + ["manager"] * 3),
        "rewired": st.booleans(),
        # further requests served by the *same* algorithm / manager instance (index into: the same request
        # again, or another generated request), so that state kept between calls is exercised
        "more": st.lists(st.one_of(st.just("same"), st.just("same"), batsys.request_strategy()), min_size=0, max_size=4),
    })


def _pairs(case: dict[str, Any]) -> tuple[list[InvBatPair], list[tuple[list[int], list[int]]]]:
    ids = batsys.assign_ids(case["groups"])
    pairs = []
    for g, (bids, iids) in zip(case["groups"], ids):
        bats = [batsys.make_battery(cid, b) for cid, b in zip(bids, g["bats"])]
        invs = [batsys.make_inverter(cid, i) for cid, i in zip(iids, g["invs"])]
        pairs.append(InvBatPair(AggregatedBatteryData(bats), invs))
    return pairs, ids


def finding_classes(case: dict[str, Any], power: float) -> set[str]:
    """Known-finding input classes (decided from the input alone)."""
    classes = set()
    up = power > 0
    ke = "eu" if up else "el"
    for g in case["groups"]:
        if len(g["invs"]) >= 2 and any(i[ke] != 0 for i in g["invs"]) and any(b[ke] != 0 for b in g["bats"]):
            classes.add("multi-inverter-with-inverter-and-battery-exclusion")
    return classes


def _classify(v: Verdict, case: dict[str, Any], power: float) -> None:
    groups = case["groups"]
    up = power > 0
    tag = "up" if up else "lo"
    gbs = [batsys.group_bounds(g) for g in groups]
    adv = batsys.advertised(groups)
    min_power = any(gb[f"min_power_{tag}"] > 0 for gb in gbs)
    zero_head = any(gb[f"headroom_{tag}"] <= 0 for gb in gbs)
    multi_inv = any(len(g["invs"]) >= 2 for g in groups)
    beyond = abs(power) > adv[f"incl_{tag}"]
    # proportional share by the documented formula (capacity ratio * available SoC ^ exponent)
    weights = []
    for gb in gbs:
        head = gb[f"headroom_{tag}"]
        weights.append(gb["capacity"] * (head ** case["exp"] if head > 0 else 0.0))
    total = sum(weights)
    share_below = False
    n_below = n_donor = 0
    if total > 0:
        for gb, w in zip(gbs, weights):
            if w > 0 and abs(power) * w / total < gb[f"min_power_{tag}"]:
                share_below = True
                n_below += 1
            elif w > 0 and abs(power) * w / total > gb[f"min_power_{tag}"]:
                n_donor += 1
    if n_below >= 2 and n_donor >= 1:
        v.labels.add("several_shares_below_min_with_donor")
        if n_donor >= 2:
            v.labels.add("several_shares_below_min_several_donors")
    for flag, name in ((min_power, "min_power"), (zero_head, "zero_headroom"), (multi_inv, "multi_inverter"),
                       (beyond, "beyond_incl"), (share_below, "share_below_min")):
        if flag:
            v.labels.add(name)
    if len(groups) >= 2:
        v.labels.add("multi_group")
    if any(len(g["bats"]) >= 2 for g in groups):
        v.labels.add("multi_battery")
    v.labels.add("charge" if up else "discharge")
    v.labels.add("req_" + case["req"]["kind"])
    if case["exp"] == 0:
        v.labels.add("exponent_0")
    v.labels.add("mode_" + case["mode"])
    v.nontrivial = len(groups) >= 2 and (min_power or zero_head or share_below or beyond or multi_inv)
    v.classes = finding_classes(case, power)


def _check_c01(v: Verdict, power: float, dist: dict[int, float], remaining: float) -> None:
    tol = 1e-6 * max(1.0, abs(power))
    total = sum(dist.values())
    if abs(total + remaining - power) > tol:
        v.fail(f"sum of set-points {total!r} + remainder {remaining!r} != requested {power!r}")
    sgn = 1.0 if power > 0 else -1.0
    for cid, val in sorted(dist.items()):
        if val * sgn < -tol:
            v.fail(f"inverter {cid} set-point {val!r} has the opposite sign of the request {power!r}")
    if remaining * sgn < -tol:
        v.fail(f"remainder {remaining!r} has the opposite sign of the request {power!r}")
    if abs(remaining) > abs(power) + tol:
        v.fail(f"remainder {remaining!r} exceeds the request {power!r}")


def _check_c02(v: Verdict, case: dict[str, Any], ids: Any, power: float, dist: dict[int, float]) -> None:
    tol = 1e-6 * max(1.0, abs(power))
    up = power > 0
    for g, (bids, iids) in zip(case["groups"], ids):
        gb = batsys.group_bounds(g)
        gtot = 0.0
        for cid, inv in zip(iids, g["invs"]):
            val = dist.get(cid, 0.0)
            gtot += val
            if abs(val) <= tol:
                continue
            if not inv["il"] - tol <= val <= inv["iu"] + tol:
                v.fail(f"inverter {cid}: {val!r} outside its inclusion bounds [{inv['il']}, {inv['iu']}]")
            if inv["el"] + tol < val < inv["eu"] - tol:
                v.fail(f"inverter {cid}: {val!r} strictly inside its exclusion zone ({inv['el']}, {inv['eu']})")
        if abs(gtot) <= tol:
            continue
        if not -gb["bat_incl_lo"] - tol <= gtot <= gb["bat_incl_up"] + tol:
            v.fail(f"group {bids}: total {gtot!r} outside battery inclusion bounds "
                   f"[{-gb['bat_incl_lo']}, {gb['bat_incl_up']}]")
        if -gb["bat_excl_lo"] + tol < gtot < gb["bat_excl_up"] - tol:
            v.fail(f"group {bids}: total {gtot!r} strictly inside battery exclusion zone "
                   f"({-gb['bat_excl_lo']}, {gb['bat_excl_up']})")
        head = gb["headroom_up"] if up else gb["headroom_lo"]
        if head <= 0:
            v.fail(f"group {bids}: no SoC headroom in the requested direction but assigned {gtot!r}")


def _requests(case: dict[str, Any], power: float) -> list[float]:
    nudge = case["mode"] == "manager"
    out = [batsys.request_power(case["groups"], case["req"], nudge=nudge) if nudge else power]
    for extra in case.get("more", []):
        out.append(out[-1] if extra == "same" else batsys.request_power(case["groups"], extra, nudge=nudge))
    return out


def _run_direct(case: dict[str, Any], pid: str, v: Verdict, power: float) -> None:
    pairs, ids = _pairs(case)
    algorithm = BatteryDistributionAlgorithm(case["exp"])
    all_inv = {i for _, iids in ids for i in iids}
    for n, req in enumerate(_requests(case, power)):
        try:
            res = algorithm.distribute_power(req, pairs)
        except Exception as exc:  # pylint: disable=broad-except
            v.fail(f"call {n}: distribute_power({req}) raised {type(exc).__name__}: {exc}")
            return
        if set(res.distribution) != all_inv:
            v.fail(f"call {n}: distribution keys {sorted(res.distribution)} != inverters {sorted(all_inv)}")
            return
        before = len(v.violations)
        if pid == "C01":
            _check_c01(v, req, dict(res.distribution), res.remaining_power)
        else:
            _check_c02(v, case, ids, req, dict(res.distribution))
        if len(v.violations) > before:
            v.violations[before] = f"call {n} of {len(case.get('more', [])) + 1} on one algorithm instance (request {req}): " \
                + v.violations[before]
            return
    if len(case.get("more", [])) >= 2:
        v.labels.add("repeated_calls_on_one_instance")


def _run_manager(case: dict[str, Any], pid: str, v: Verdict, power: float) -> None:
    reqs = _requests(case, power)

    async def scenario() -> None:
        rewired = bool(case.get("rewired")) and len(case["groups"]) >= 2
        if rewired:
            v.labels.add("topology_refreshed_before_the_manager_was_created")
        async with batsys.ManagerWorld(case["groups"], rewired=rewired) as mw:
            for n, req in enumerate(reqs):
                mw.api.set_power_calls.clear()
                if n:
                    await mw.feed()
                    await world.settle()
                result = await mw.request(req, adjust_power=True)
                calls = dict(mw.api.set_power_calls)
                where = f"request {n} of {len(reqs)} through one BatteryManager ({req} W)"
                if len(calls) != len(mw.api.set_power_calls):
                    v.fail(f"{where}: an inverter received two set_power calls for one request")
                if not isinstance(result, (Success, PartialFailure)):
                    v.fail(f"{where}: admitted request answered with {type(result).__name__}: "
                           f"{getattr(result, 'msg', getattr(result, 'bounds', ''))}")
                    return
                excess = result.excess_power.as_watts()
                succeeded = result.succeeded_power.as_watts()
                before = len(v.violations)
                if pid == "C01":
                    _check_c01(v, req, calls, excess)
                    tol = 1e-6 * max(1.0, abs(req))
                    if abs(sum(calls.values()) - succeeded) > tol:
                        v.fail(f"power reported as set {succeeded!r} != power commanded {sum(calls.values())!r}")
                    if abs(succeeded + excess - req) > tol:
                        v.fail(f"succeeded {succeeded!r} + excess {excess!r} != requested {req!r}")
                else:
                    _check_c02(v, case, mw.ids, req, calls)
                if len(v.violations) > before:
                    v.violations[before] = where + ": " + v.violations[before]
                    return

    world.run(scenario)


def run_case(case: Any, pid: str) -> Verdict:
    v = Verdict()
    power = batsys.request_power(case["groups"], case["req"])
    _classify(v, case, power)
    if case["mode"] == "manager":
        _run_manager(case, pid, v, power)
    else:
        _run_direct(case, pid, v, power)
    return v


def describe(case: Any) -> Any:
    return {"request_w": batsys.request_power(case["groups"], case["req"]), **case}
