"""Property-based verification harness for frequenz-sdk-python (see /verif/DESIGN.md)."""
