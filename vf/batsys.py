"""Battery-system cases shared by C01, C02, C15 and C17.

A case describes battery groups (k batteries behind m inverters) with consistent bounds:
``incl_lower <= excl_lower <= 0 <= excl_upper <= incl_upper`` per component and group
minimum power <= group inclusion bound in both directions, established constructively.
"""

from __future__ import annotations

import math
from typing import Any

from hypothesis import strategies as st

from frequenz.client.microgrid import BatteryData, Connection, InverterData

from . import fakes
from .world import T0

F_CHOICES = [0.0, 0.0, 0.0, 0.1, 0.5, 1.0]


def _frac() -> st.SearchStrategy[float]:
    return st.one_of(st.sampled_from(F_CHOICES), st.floats(0.0, 1.0))


def _mag(grid_only: bool) -> st.SearchStrategy[float]:
    ints = st.one_of(st.sampled_from([0.0, 100.0, 1000.0, 1000.0]), st.integers(1, 5000).map(float))
    if grid_only:
        return st.one_of(ints, st.integers(1, 10000).map(lambda x: x / 2.0))
    return st.one_of(ints, st.floats(0.0, 5000.0))


def _shrink_to(value: float, limit: float) -> float:
    while value > limit:
        value = math.nextafter(value, 0.0)
    return value


@st.composite
def _deficit_stress(draw: Any, max_groups: int) -> list[dict[str, Any]]:
    """Many single-inverter groups that all have exclusion bounds; several of them have almost no SoC headroom.

    This is the regime in which proportional shares fall below the minimum power of several groups at once
    and the surplus of the others has to be redistributed.
    """
    out = []
    n = draw(st.integers(3, max(3, max_groups + 1)))
    for _ in range(n):
        incl = float(draw(st.sampled_from([500, 1000, 2000, 5000])))
        e_bat = float(draw(st.sampled_from([0, 50, 100, 200, 250])))
        e_inv = float(draw(st.sampled_from([0, 0, 50, 100, 200])))
        e_bat, e_inv = min(e_bat, incl), min(e_inv, incl)
        lo, hi = 10.0, 90.0
        soc = draw(st.sampled_from([10.0, 10.5, 11.0, 50.0, 50.0, 89.0, 89.5, 90.0]))
        out.append({
            "bats": [{"cap": float(draw(st.sampled_from([1000, 1000, 2000]))), "soc": soc, "lo": lo, "hi": hi,
                      "iu": incl, "il": -incl, "eu": e_bat, "el": -e_bat + 0.0}],
            "invs": [{"iu": incl, "il": -incl, "eu": e_inv, "el": -e_inv + 0.0}],
        })
    return out


@st.composite
def groups(draw: Any, max_groups: int = 4, grid_only: bool = False, multi: bool = True,
           stress_pct: int = 20) -> list[dict[str, Any]]:
    if draw(st.integers(0, 99)) < stress_pct:
        return draw(_deficit_stress(max_groups))
    out = []
    for _ in range(draw(st.integers(1, max_groups))):
        nb = draw(st.sampled_from([1, 1, 1, 2, 3])) if multi else 1
        ni = draw(st.sampled_from([1, 1, 1, 2, 3])) if multi else 1
        bats = []
        for _ in range(nb):
            lo = draw(st.sampled_from([0.0, 10.0, 20.0]))
            hi = draw(st.sampled_from([lo, 80.0, 90.0, 100.0]))
            kind = draw(st.sampled_from(["lo", "hi", "in", "in", "in", "below", "above", "near_lo", "near_hi"]))
            if kind == "near_lo":
                soc = min(hi, lo + draw(st.sampled_from([0.01, 0.5, 1.0])))
            elif kind == "near_hi":
                soc = max(lo, hi - draw(st.sampled_from([0.01, 0.5, 1.0])))
            elif kind == "lo":
                soc = lo
            elif kind == "hi":
                soc = hi
            elif kind == "in":
                soc = lo + (hi - lo) * draw(st.floats(0.0, 1.0))
            elif kind == "below":
                soc = max(0.0, lo - draw(st.sampled_from([0.5, 5.0])))
            else:
                soc = min(100.0, hi + draw(st.sampled_from([0.5, 5.0])))
            cap = draw(st.one_of(st.sampled_from([1.0, 1000.0, 1000.0]),
                                 st.floats(0.0, 6.0).map(lambda e: round(10.0 ** e, 3))))
            bats.append({"cap": cap, "soc": soc, "lo": lo, "hi": hi,
                         "iu": draw(_mag(grid_only)), "il": -draw(_mag(grid_only)) + 0.0})
        invs = [{"iu": draw(_mag(grid_only)), "il": -draw(_mag(grid_only)) + 0.0} for _ in range(ni)]
        # exclusion bounds, per direction, inside the room the inclusion bounds leave
        for up, key_i, key_e in ((True, "iu", "eu"), (False, "il", "el")):
            sgn = 1.0 if up else -1.0
            bat_incl = sum(sgn * b[key_i] for b in bats)
            group_incl = min(sum(min(sgn * i[key_i], bat_incl) for i in invs), bat_incl)
            for b in bats:
                room = min(sgn * b[key_i], group_incl / nb)
                e = draw(_frac()) * room
                if grid_only:
                    e = math.floor(e * 2.0) / 2.0
                b[key_e] = e
            cap_e = max(b[key_e] for b in bats)
            while cap_e * nb > group_incl:
                cap_e = math.nextafter(cap_e, 0.0)
            for b in bats:
                b[key_e] = min(b[key_e], cap_e)
            for i in invs:
                e = draw(_frac()) * (sgn * i[key_i])
                if grid_only:
                    e = math.floor(e * 2.0) / 2.0
                i[key_e] = e
            if min(i[key_e] for i in invs) > group_incl:
                j = min(range(ni), key=lambda n: invs[n][key_e])
                e = draw(_frac()) * min(sgn * invs[j][key_i], group_incl)
                if grid_only:
                    e = math.floor(e * 2.0) / 2.0
                invs[j][key_e] = e
            for c in bats + invs:
                c[key_e] = sgn * c[key_e] + 0.0
        out.append({"bats": bats, "invs": invs})
    return out


# --------------------------------------------------------------------------- building


def assign_ids(case_groups: list[dict[str, Any]]) -> list[tuple[list[int], list[int]]]:
    """Component ids per group: ([battery ids], [inverter ids]); 1 = grid, 2 = meter."""
    ids = []
    nxt = 10
    for g in case_groups:
        b = list(range(nxt, nxt + len(g["bats"])))
        nxt += len(g["bats"])
        i = list(range(nxt, nxt + len(g["invs"])))
        nxt += len(g["invs"])
        ids.append((b, i))
    return ids


def make_battery(cid: int, b: dict[str, Any], ts: Any = T0) -> BatteryData:
    return fakes.battery_data(
        cid, ts, soc=float(b["soc"]), soc_lower_bound=float(b["lo"]), soc_upper_bound=float(b["hi"]),
        capacity=float(b["cap"]), power_inclusion_lower_bound=float(b["il"]),
        power_exclusion_lower_bound=float(b["el"]), power_exclusion_upper_bound=float(b["eu"]),
        power_inclusion_upper_bound=float(b["iu"]),
    )


def make_inverter(cid: int, i: dict[str, Any], ts: Any = T0) -> InverterData:
    return fakes.inverter_data(
        cid, ts, active_power_inclusion_lower_bound=float(i["il"]),
        active_power_exclusion_lower_bound=float(i["el"]),
        active_power_exclusion_upper_bound=float(i["eu"]),
        active_power_inclusion_upper_bound=float(i["iu"]),
    )


def graph_parts(case_groups: list[dict[str, Any]]) -> tuple[set[Any], set[Connection]]:
    comps = {fakes.grid(1), fakes.meter(2)}
    conns = {Connection(1, 2)}
    for bids, iids in assign_ids(case_groups):
        for i in iids:
            comps.add(fakes.bat_inverter(i))
            conns.add(Connection(2, i))
            for b in bids:
                conns.add(Connection(i, b))
        for b in bids:
            comps.add(fakes.battery(b))
    return comps, conns


# --------------------------------------------------------------------------- documented aggregates


def group_bounds(g: dict[str, Any]) -> dict[str, float]:
    """Aggregates of one group by the documented rules.

    battery inclusion = sum, battery exclusion = largest * number of batteries; the group can
    take at most min(battery inclusion, sum of inverter inclusion) and at least
    max(battery exclusion, smallest inverter exclusion) when used at all.
    """
    nb = len(g["bats"])
    out: dict[str, float] = {}
    for up, ki, ke in ((True, "iu", "eu"), (False, "il", "el")):
        s = 1.0 if up else -1.0
        bat_incl = sum(s * b[ki] for b in g["bats"])
        bat_excl = max(s * b[ke] for b in g["bats"]) * nb
        inv_incl = sum(min(s * i[ki], bat_incl) for i in g["invs"])
        tag = "up" if up else "lo"
        out[f"bat_incl_{tag}"] = bat_incl
        out[f"bat_excl_{tag}"] = bat_excl
        out[f"incl_{tag}"] = min(bat_incl, inv_incl)
        out[f"min_power_{tag}"] = max(bat_excl, min(s * i[ke] for i in g["invs"]))
        out[f"inv_excl_sum_{tag}"] = sum(s * i[ke] for i in g["invs"])
        out[f"adv_excl_{tag}"] = max(bat_excl, out[f"inv_excl_sum_{tag}"])
        out[f"adv_incl_{tag}"] = min(bat_incl, sum(s * i[ki] for i in g["invs"]))
    cap = sum(b["cap"] for b in g["bats"])
    soc = sum(b["soc"] * b["cap"] for b in g["bats"]) / cap
    hi = sum(b["hi"] * b["cap"] for b in g["bats"]) / cap
    lo = sum(b["lo"] * b["cap"] for b in g["bats"]) / cap
    out["headroom_up"] = max(0.0, hi - soc)
    out["headroom_lo"] = max(0.0, soc - lo)
    out["capacity"] = cap
    return out


def advertised(case_groups: list[dict[str, Any]]) -> dict[str, float]:
    """Pool bounds by the documented aggregation (sum over groups), magnitudes per direction."""
    gb = [group_bounds(g) for g in case_groups]
    return {
        "incl_up": sum(x["adv_incl_up"] for x in gb),
        "incl_lo": sum(x["adv_incl_lo"] for x in gb),
        "excl_up": sum(x["adv_excl_up"] for x in gb),
        "excl_lo": sum(x["adv_excl_lo"] for x in gb),
    }


def request_power(case_groups: list[dict[str, Any]], req: dict[str, Any], nudge: bool = False) -> float:
    """An admitted, non-zero request derived from the case's request descriptor.

    nudge=True moves a request that sits exactly on the advertised exclusion bound outward by 1e-9
    (relative): the manager sums the same bounds in another order, so "exactly on the bound" can be one
    ulp inside its own bound and would be rejected for float-noise reasons only.
    """
    adv = advertised(case_groups)
    up = req["sign"] > 0
    incl = adv["incl_up"] if up else adv["incl_lo"]
    excl = adv["excl_up"] if up else adv["excl_lo"]
    kind, frac = req["kind"], req["frac"]
    if kind == "near_excl" and excl > 0:
        mag = excl * (1.0 + 0.1 * frac) if incl <= 0 or excl * (1.0 + 0.1 * frac) <= max(incl, excl) else excl
    elif kind == "excl" and excl > 0:
        mag = excl
    elif kind == "incl" and incl >= excl and incl > 0:
        mag = incl
    elif kind in ("between", "excl", "incl", "near_excl") and incl > excl:
        mag = excl + frac * (incl - excl)
        if mag <= 0:
            mag = incl
    else:
        mag = max(incl, excl) * (1.0 + frac) + 1.0
    if nudge and (kind in ("excl", "near_excl") or (excl > 0 and abs(mag - excl) <= 1e-9 * excl)):
        mag *= 1.0 + 1e-9
    return mag if up else -mag


def request_strategy() -> st.SearchStrategy[dict[str, Any]]:
    return st.fixed_dictionaries({
        "sign": st.sampled_from([1, -1]),
        "kind": st.sampled_from(["excl", "incl", "between", "between", "beyond", "near_excl", "near_excl", "near_excl"]),
        "frac": st.one_of(st.sampled_from([0.001, 0.01, 0.1, 0.5, 0.999]), st.floats(0.0, 1.0)),
    })


# --------------------------------------------------------------------------- real BatteryManager on fakes


class _AllWorkingTracker:
    """Stand-in for ComponentPoolStatusTracker: every requested component is working (unless declared otherwise)."""

    def __init__(self, *args: Any, **kwargs: Any) -> None:
        del args, kwargs
        self.updates: list[tuple[set[int], set[int]]] = []
        self.not_working: set[int] = set()   # a harness may declare components not working

    def get_working_components(self, components: Any) -> set[int]:
        return set(components) - self.not_working

    async def update_status(self, succeeded: Any, failed: Any) -> None:
        self.updates.append((set(succeeded), set(failed)))

    async def stop(self) -> None:
        return None


class ManagerWorld:
    """A real BatteryManager fed the case's data through the fake API (inside world.run)."""

    def __init__(self, case_groups: list[dict[str, Any]], timeout_s: float = 5.0, real_tracker: bool = False,
                 rewired: bool = False) -> None:
        self.real_tracker = real_tracker   # keep the SDK's ComponentPoolStatusTracker instead of the all-working stub
        # the component graph described another wiring earlier (the batteries of the first two groups swapped), was
        # queried, and has been refreshed to the present wiring before the manager is created
        self.rewired = rewired
        self.groups = case_groups
        self.ids = assign_ids(case_groups)
        self.timeout_s = timeout_s
        self.api: fakes.FakeApi
        self.manager: Any = None
        self._stack: Any = None
        self.results_rx: Any = None

    async def __aenter__(self) -> "ManagerWorld":
        import contextlib  # pylint: disable=import-outside-toplevel
        from datetime import timedelta  # pylint: disable=import-outside-toplevel
        from unittest import mock  # pylint: disable=import-outside-toplevel

        from frequenz.channels import Broadcast  # pylint: disable=import-outside-toplevel

        from frequenz.sdk.microgrid._power_distributing._component_managers import (  # pylint: disable=import-outside-toplevel
            _battery_manager,
        )

        from . import world  # pylint: disable=import-outside-toplevel

        comps, conns = graph_parts(self.groups)
        self.api = fakes.FakeApi(comps, conns)
        self._stack = contextlib.ExitStack()
        graph = fakes.build_graph(comps, conns)
        if self.rewired and len(self.ids) >= 2:
            (b0, i0), (b1, i1) = self.ids[0], self.ids[1]
            old = {c for c in conns if c.end not in set(b0) | set(b1)}
            old |= {Connection(i, b) for i in i0 for b in b1} | {Connection(i, b) for i in i1 for b in b0}
            graph = fakes.build_graph(comps, old)
            for cid in list(b0) + list(b1):
                graph.predecessors(cid)
            for cid in list(i0) + list(i1):
                graph.successors(cid)
            graph.refresh_from(comps, conns)
        self._stack.enter_context(fakes.connection(graph, self.api))
        if not self.real_tracker:
            self._stack.enter_context(mock.patch.object(_battery_manager, "ComponentPoolStatusTracker", _AllWorkingTracker))
        self.status_chan: Any = Broadcast(name="pool-status")
        self.results_chan: Any = Broadcast(name="results")
        self.results_rx = self.results_chan.new_receiver(limit=100)
        self.manager = _battery_manager.BatteryManager(
            self.status_chan.new_sender(), self.results_chan.new_sender(), timedelta(seconds=self.timeout_s)
        )
        await self.manager.start()
        if self.real_tracker:
            # the per-battery status trackers subscribe to the API streams in their own tasks
            await world.settle(3)
        await self.feed()
        await world.settle(2)
        if self.real_tracker:
            await self.feed()
            await world.settle(3)
        return self

    async def feed(self) -> None:
        from . import world  # pylint: disable=import-outside-toplevel

        for g, (bids, iids) in zip(self.groups, self.ids):
            for cid, b in zip(bids, g["bats"]):
                await self.api.send(cid, make_battery(cid, b, world.now()))
            for cid, i in zip(iids, g["invs"]):
                await self.api.send(cid, make_inverter(cid, i, world.now()))

    async def feed_groups(self, groups_now: list[dict[str, Any]]) -> None:
        """Like feed(), for data that differ from the data the world was created with."""
        from . import world  # pylint: disable=import-outside-toplevel

        for g, (bids, iids) in zip(groups_now, self.ids):
            for cid, b in zip(bids, g["bats"]):
                await self.api.send(cid, make_battery(cid, b, world.now()))
            for cid, i in zip(iids, g["invs"]):
                await self.api.send(cid, make_inverter(cid, i, world.now()))

    @property
    def battery_ids(self) -> frozenset[int]:
        return frozenset(b for bids, _ in self.ids for b in bids)

    async def request(self, power: float, adjust_power: bool = True, component_ids: Any = None) -> Any:
        from frequenz.quantities import Power  # pylint: disable=import-outside-toplevel

        from frequenz.sdk.microgrid._power_distributing.request import Request  # pylint: disable=import-outside-toplevel

        req = Request(Power.from_watts(power), component_ids or self.battery_ids, adjust_power)
        await self.manager.distribute_power(req)
        return await self.results_rx.receive()

    async def __aexit__(self, *exc: Any) -> None:
        try:
            await self.manager.stop()
        finally:
            self._stack.close()
