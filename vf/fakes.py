"""Fakes: microgrid API client, connection manager, component graph, data factories.

Nothing here comes from /repo/tests; data objects are built directly from the client
library's dataclasses so that edits to the repository's test helpers cannot change what
the checks do.
"""

from __future__ import annotations

import asyncio
import math
from contextlib import contextmanager
from datetime import datetime
from typing import Any, Callable, Iterator

from frequenz.channels import Broadcast, Receiver
from frequenz.client.microgrid import (
    ApiClientError,
    BatteryComponentState,
    BatteryData,
    BatteryRelayState,
    Component,
    ComponentCategory,
    Connection,
    EVChargerCableState,
    EVChargerComponentState,
    EVChargerData,
    InverterComponentState,
    InverterData,
    InverterType,
    MeterData,
    OperationOutOfRange,
)

from frequenz.sdk.microgrid import connection_manager
from frequenz.sdk.microgrid.component_graph import _MicrogridComponentGraph

NAN3 = (math.nan, math.nan, math.nan)


# --------------------------------------------------------------------------- data


def battery_data(cid: int, ts: datetime, **kw: Any) -> BatteryData:
    base: dict[str, Any] = dict(
        component_id=cid,
        timestamp=ts,
        soc=50.0,
        soc_lower_bound=10.0,
        soc_upper_bound=90.0,
        capacity=1000.0,
        power_inclusion_lower_bound=-1000.0,
        power_exclusion_lower_bound=0.0,
        power_inclusion_upper_bound=1000.0,
        power_exclusion_upper_bound=0.0,
        temperature=25.0,
        relay_state=BatteryRelayState.CLOSED,
        component_state=BatteryComponentState.IDLE,
        errors=[],
    )
    base.update(kw)
    return BatteryData(**base)


def inverter_data(cid: int, ts: datetime, **kw: Any) -> InverterData:
    base: dict[str, Any] = dict(
        component_id=cid,
        timestamp=ts,
        active_power=0.0,
        active_power_per_phase=NAN3,
        reactive_power=0.0,
        reactive_power_per_phase=NAN3,
        current_per_phase=NAN3,
        voltage_per_phase=NAN3,
        active_power_inclusion_lower_bound=-1000.0,
        active_power_exclusion_lower_bound=0.0,
        active_power_inclusion_upper_bound=1000.0,
        active_power_exclusion_upper_bound=0.0,
        frequency=50.0,
        component_state=InverterComponentState.IDLE,
        errors=[],
    )
    base.update(kw)
    return InverterData(**base)


def meter_data(cid: int, ts: datetime, **kw: Any) -> MeterData:
    base: dict[str, Any] = dict(
        component_id=cid,
        timestamp=ts,
        active_power=0.0,
        active_power_per_phase=(0.0, 0.0, 0.0),
        reactive_power=0.0,
        reactive_power_per_phase=(0.0, 0.0, 0.0),
        current_per_phase=(0.0, 0.0, 0.0),
        voltage_per_phase=(230.0, 230.0, 230.0),
        frequency=50.0,
    )
    base.update(kw)
    return MeterData(**base)


def ev_charger_data(cid: int, ts: datetime, **kw: Any) -> EVChargerData:
    base: dict[str, Any] = dict(
        component_id=cid,
        timestamp=ts,
        active_power=0.0,
        active_power_per_phase=(0.0, 0.0, 0.0),
        current_per_phase=(0.0, 0.0, 0.0),
        reactive_power=0.0,
        reactive_power_per_phase=(0.0, 0.0, 0.0),
        voltage_per_phase=(230.0, 230.0, 230.0),
        active_power_inclusion_lower_bound=0.0,
        active_power_exclusion_lower_bound=0.0,
        active_power_inclusion_upper_bound=10000.0,
        active_power_exclusion_upper_bound=0.0,
        frequency=50.0,
        cable_state=EVChargerCableState.EV_LOCKED,
        component_state=EVChargerComponentState.CHARGING,
    )
    base.update(kw)
    return EVChargerData(**base)


# --------------------------------------------------------------------------- graph


def comp(cid: int, category: ComponentCategory, ctype: Any = None) -> Component:
    return Component(cid, category, ctype)


def grid(cid: int = 1) -> Component:
    return comp(cid, ComponentCategory.GRID)


def meter(cid: int) -> Component:
    return comp(cid, ComponentCategory.METER)


def bat_inverter(cid: int) -> Component:
    return comp(cid, ComponentCategory.INVERTER, InverterType.BATTERY)


def pv_inverter(cid: int) -> Component:
    return comp(cid, ComponentCategory.INVERTER, InverterType.SOLAR)


def battery(cid: int) -> Component:
    return comp(cid, ComponentCategory.BATTERY)


def ev_charger(cid: int) -> Component:
    return comp(cid, ComponentCategory.EV_CHARGER)


def chp(cid: int) -> Component:
    return comp(cid, ComponentCategory.CHP)


def build_graph(components: set[Component], connections: set[Connection]) -> _MicrogridComponentGraph:
    """Real component graph (the repository's own validation decides what is valid)."""
    return _MicrogridComponentGraph(components, connections)


# --------------------------------------------------------------------------- api

OUTCOMES = ("ok", "out_of_range", "client_error", "runtime_error", "hang")


class FakeApi:
    """In-process stand-in for the microgrid API client.

    ``set_power`` records the call and then behaves as ``outcome_fn(component_id, power,
    call_index)`` says: "ok" returns, "out_of_range" raises OperationOutOfRange,
    "client_error" raises ApiClientError, "runtime_error" raises RuntimeError, "hang"
    never returns (the caller's timeout cancels it, in virtual time).
    """

    def __init__(self, components: set[Component], connections: set[Connection]) -> None:
        self._components = components
        self._connections = connections
        self.channels: dict[int, Broadcast[Any]] = {}
        self.set_power_calls: list[tuple[int, float]] = []
        self.set_power_outcomes: list[str] = []
        self.outcome_fn: Callable[[int, float, int], str] = lambda cid, power, idx: "ok"
        # virtual seconds a set_power call takes before it replies / raises (cancelled while waiting = never completed)
        self.latency_fn: Callable[[int, float, int], float] = lambda cid, power, idx: 0.0
        self.receivers_created: dict[int, int] = {}

    def channel(self, cid: int) -> Broadcast[Any]:
        if cid not in self.channels:
            self.channels[cid] = Broadcast(name=f"fake-api-{cid}")
        return self.channels[cid]

    async def send(self, cid: int, data: Any) -> None:
        await self.channel(cid).new_sender().send(data)

    async def components(self) -> set[Component]:
        return set(self._components)

    async def connections(self, starts: Any = None, ends: Any = None) -> set[Connection]:
        del starts, ends
        return set(self._connections)

    def _recv(self, cid: int, maxsize: int) -> Receiver[Any]:
        self.receivers_created[cid] = self.receivers_created.get(cid, 0) + 1
        return self.channel(cid).new_receiver(limit=maxsize)

    async def battery_data(self, cid: int, maxsize: int = 50) -> Receiver[Any]:
        return self._recv(cid, maxsize)

    async def inverter_data(self, cid: int, maxsize: int = 50) -> Receiver[Any]:
        return self._recv(cid, maxsize)

    async def meter_data(self, cid: int, maxsize: int = 50) -> Receiver[Any]:
        return self._recv(cid, maxsize)

    async def ev_charger_data(self, cid: int, maxsize: int = 50) -> Receiver[Any]:
        return self._recv(cid, maxsize)

    async def set_power(self, cid: int, power: float) -> None:
        idx = len(self.set_power_calls)
        self.set_power_calls.append((cid, power))
        outcome = self.outcome_fn(cid, power, idx)
        self.set_power_outcomes.append(outcome)
        latency = self.latency_fn(cid, power, idx)
        if latency > 0 and outcome != "hang":
            await asyncio.sleep(latency)
        if outcome == "ok":
            return
        if outcome == "out_of_range":
            raise OperationOutOfRange(server_url="fake", operation="set_power", grpc_error=_FakeGrpcError())
        if outcome == "client_error":
            raise ApiClientError(server_url="fake", operation="set_power", description="generated failure", retryable=False)
        if outcome == "runtime_error":
            raise RuntimeError("generated failure")
        if outcome == "hang":
            await asyncio.Event().wait()
        raise AssertionError(f"unknown outcome {outcome}")

    async def set_bounds(self, cid: int, lower: float, upper: float) -> None:
        del cid, lower, upper


class _FakeGrpcError(Exception):
    """Minimal object accepted by the client's GrpcError constructors."""

    def code(self) -> Any:
        import grpc  # pylint: disable=import-outside-toplevel

        return grpc.StatusCode.OUT_OF_RANGE

    def details(self) -> str:
        return "generated"

    def debug_error_string(self) -> str:
        return "generated"


class FakeConnection:
    """Object with the two attributes the SDK reads from the connection manager."""

    def __init__(self, graph: Any, api: FakeApi) -> None:
        self._graph = graph
        self._api = api

    @property
    def component_graph(self) -> Any:
        return self._graph

    @property
    def api_client(self) -> FakeApi:
        return self._api

    @property
    def microgrid_id(self) -> int:
        return 1

    @property
    def location(self) -> Any:
        return None


@contextmanager
def connection(graph: Any, api: FakeApi) -> Iterator[FakeConnection]:
    old = connection_manager._CONNECTION_MANAGER  # pylint: disable=protected-access
    conn = FakeConnection(graph, api)
    connection_manager._CONNECTION_MANAGER = conn  # type: ignore[assignment]  # pylint: disable=protected-access
    try:
        yield conn
    finally:
        connection_manager._CONNECTION_MANAGER = old  # pylint: disable=protected-access
