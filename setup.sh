#!/bin/bash
# Offline setup: verify that the interpreter the checks use has what they need;
# install hypothesis from the local wheelhouse into /verif/.deps only if /venv lacks it.
HERE="$(cd "$(dirname "${BASH_SOURCE[0]}")" && pwd)"
cd "$HERE" || exit 2
export PIP_NO_INDEX=1
if ! /venv/bin/python -c "import hypothesis" 2>/dev/null; then
  /venv/bin/pip install --no-index --find-links /opt/veriftools/wheels --target "$HERE/.deps" hypothesis || exit 2
fi
# optional: atheris for the coverage-guided stage of the thorough tier (skipped, and said so in the evidence, if absent)
if ! PYTHONPATH="$HERE/.deps" /venv/bin/python -c "import atheris" 2>/dev/null; then
  /venv/bin/pip install --no-index --find-links /opt/veriftools/wheels --target "$HERE/.deps" atheris >/dev/null 2>&1 \
    || echo "note: atheris could not be installed; the coverage-guided stage will be skipped"
fi
PYTHONPATH="/repo/src:$HERE${HERE:+:$HERE/.deps}" /venv/bin/python - <<'PY' || exit 2
import hypothesis, async_solipsism, time_machine, numpy, networkx
import frequenz.sdk, frequenz.channels, frequenz.client.microgrid
print("setup ok: hypothesis", hypothesis.__version__, "sdk from", list(frequenz.sdk.__path__)[0])
PY
mkdir -p "$HERE/evidence" "$HERE/replays"
