import random, sys, itertools
from datetime import datetime, timezone, timedelta
from frequenz.quantities import Power
from frequenz.sdk.timeseries._base_types import Bounds, SystemBounds
from frequenz.sdk.microgrid._power_managing._matryoshka import Matryoshka
from frequenz.sdk.microgrid._power_managing._base_classes import Proposal
IDS = frozenset({1})
W = Power.from_watts
def mk(rng):
    vals = [0, 10, 20, 30, 50, 100, 200]
    lo = -rng.choice(vals); hi = rng.choice(vals)
    el = -rng.choice([0,0,10,30,50,100]); eu = rng.choice([0,0,10,30,50,100])
    sb = SystemBounds(timestamp=datetime.now(timezone.utc), inclusion_bounds=Bounds(W(lo),W(hi)), exclusion_bounds=Bounds(W(el),W(eu)))
    n = rng.randint(1,4)
    props = []
    for i in range(n):
        pw = rng.choice([None, None] + [rng.choice([-1,1])*v for v in [0,5,10,15,20,30,40,50,100,150,250]])
        bl = rng.choice([None, None] + [-v for v in [0,5,10,20,30,50,100,250]] + [5, 20, 40])
        bu = rng.choice([None, None] + [v for v in [0,5,10,20,30,50,100,250]] + [-5,-20,-40])
        if bl is not None and bu is not None and bl > bu: bl, bu = bu, bl
        props.append(Proposal(source_id=f"s{i}", preferred_power=None if pw is None else W(pw), bounds=Bounds(None if bl is None else W(bl), None if bu is None else W(bu)), component_ids=IDS, priority=rng.randint(0,3), creation_time=0.0, set_operating_point=False))
    return sb, props
def target(sb, props):
    m = Matryoshka(timedelta(seconds=60)); t=None
    for p in props:
        t = m.calculate_target_power(IDS, p, sb, must_return_power=True)
    return t
rng = random.Random(int(sys.argv[1])); N=int(sys.argv[2])
from collections import Counter
c = Counter(); ex = {}
for _ in range(N):
    sb, props = mk(rng)
    t = target(sb, props).as_watts()
    lo, hi = sb.inclusion_bounds.lower.as_watts(), sb.inclusion_bounds.upper.as_watts()
    el, eu = sb.exclusion_bounds.lower.as_watts(), sb.exclusion_bounds.upper.as_watts()
    errs = []
    if not (lo <= t <= hi): errs.append("outside incl")
    if t != 0 and el < t < eu: errs.append("inside excl")
    ts = set()
    for perm in itertools.permutations(props):
        ts.add(target(sb, list(perm)).as_watts())
    if len(ts) > 1: errs.append("order dep")
    for e in errs:
        c[e]+=1
        if e not in ex or len(ex[e][1])>len(props): ex[e]=(sb, props, t)
print(c)
for k,(sb,props,t) in ex.items():
    print("==",k,"target",t,"incl",sb.inclusion_bounds.lower, sb.inclusion_bounds.upper,"excl",sb.exclusion_bounds.lower, sb.exclusion_bounds.upper)
    for p in props: print("   prio",p.priority,p.source_id,"pref",p.preferred_power,"bounds",p.bounds.lower,p.bounds.upper)
