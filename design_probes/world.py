import asyncio, logging
from datetime import datetime, timezone, timedelta
import async_solipsism, time_machine
T0 = datetime(2024, 1, 1, tzinfo=timezone.utc)
def run(coro_fn, t0=T0):
    loop = async_solipsism.EventLoop()
    asyncio.set_event_loop(loop)
    with time_machine.travel(t0, tick=False) as tr:
        clock = loop._selector.clock
        orig = clock.advance
        def advance(delta):
            orig(delta)
            tr.move_to(t0 + timedelta(microseconds=round(clock.time()*1e6)))
        clock.advance = advance
        try:
            return loop.run_until_complete(coro_fn())
        finally:
            tasks = [t for t in asyncio.all_tasks(loop) if not t.done()]
            for t in tasks: t.cancel()
            if tasks: loop.run_until_complete(asyncio.gather(*tasks, return_exceptions=True))
            loop.close()
async def settle(): await asyncio.sleep(1e-6)
