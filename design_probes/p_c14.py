import asyncio, world, logging, random, sys
from datetime import timedelta
from unittest import mock
from frequenz.channels import Broadcast
from frequenz.client.microgrid import ComponentCategory
from frequenz.quantities import Power
from frequenz.sdk.microgrid._power_distributing import power_distributing as pdm
from frequenz.sdk.microgrid._power_distributing.request import Request
from frequenz.sdk.actor import _actor
_actor.Actor._restart_limit = 0
logging.disable(logging.CRITICAL)
async def main(seed):
    rng=random.Random(seed); trace=[]; gates={}
    class Probe:
        def __init__(self,*a,**k): pass
        def component_ids(self): return set()
        async def start(self): pass
        async def stop(self): pass
        async def distribute_power(self, request):
            g=frozenset(request.component_ids); trace.append(("enter",g,request.power.as_watts()))
            fut=asyncio.get_running_loop().create_future(); gates.setdefault(g,[]).append(fut)
            try: await fut
            finally: trace.append(("exit",g,request.power.as_watts()))
    reqs=Broadcast[Request](name="r"); res=Broadcast(name="res"); st=Broadcast(name="st")
    with mock.patch.object(pdm,"BatteryManager",Probe):
        a=pdm.PowerDistributingActor(reqs.new_receiver(limit=1000),res.new_sender(),st.new_sender(),api_power_request_timeout=timedelta(seconds=5),component_category=ComponentCategory.BATTERY)
        a.start(); await world.settle()
        snd=reqs.new_sender(); groups=[frozenset({1,2}),frozenset({3})]
        model={g:[None,None] for g in groups}; exp=[]; n=0; errs=[]
        def m_enter(g,v): exp.append(("enter",g,v))
        for step in range(rng.randint(5,30)):
            op=rng.choice(["req","req","req","done","fail","settle"]); g=rng.choice(groups)
            if op=="req":
                n+=1; await snd.send(Request(power=Power.from_watts(float(n)),component_ids=set(g)))
                if rng.random()<0.5: continue   # burst: no settle
            elif op in("done","fail"):
                await world.settle()
                if gates.get(g):
                    f=gates[g].pop(0)
                    f.set_result(None) if op=="done" else f.set_exception(RuntimeError("boom"))
            await world.settle()
        # finish everything
        for _ in range(100):
            await world.settle()
            pend=[(g,fs) for g,fs in gates.items() if fs]
            if not pend: break
            for g,fs in pend: fs.pop(0).set_result(None)
        await world.settle()
        await a.stop()
    return trace
def check(trace):
    inflight={}; errs=[]
    for ev,g,v in trace:
        if ev=="enter":
            if inflight.get(g) is not None: errs.append(f"concurrent {g} {v}")
            inflight[g]=v
        else: inflight[g]=None
    return errs
bad=0
for seed in range(int(sys.argv[1])):
    tr=world.run(lambda: main(seed))
    e=check(tr)
    # per group entered values increasing (subsequence in order)
    for g in {t[1] for t in tr}:
        vs=[v for ev,gg,v in tr if ev=="enter" and gg==g]
        if vs!=sorted(vs): e.append(f"order {g} {vs}")
    if e: bad+=1; print(seed,e[:2])
print("bad",bad)
