import random, sys, logging
from datetime import datetime, timezone
from unittest import mock
from frequenz.client.microgrid import Component, ComponentCategory as C, Connection, InverterType, ComponentMetricId as M, GridMetadata, Fuse
from frequenz.quantities import Power
sys.path.insert(0,"/repo")
from tests.utils.component_data_wrapper import BatteryDataWrapper, InverterDataWrapper
from frequenz.sdk.microgrid import connection_manager
from frequenz.sdk.microgrid.component_graph import _MicrogridComponentGraph
from frequenz.sdk.timeseries.battery_pool._metric_calculator import PowerBoundsCalculator
from frequenz.sdk.timeseries.battery_pool._component_metrics import ComponentMetricsData
from frequenz.sdk.microgrid._power_distributing._component_managers._battery_manager import BatteryManager
from frequenz.sdk.microgrid._power_distributing._distribution_algorithm import AggregatedBatteryData, InvBatPair
from frequenz.sdk.microgrid._power_distributing.request import Request
from frequenz.sdk.microgrid._power_distributing.result import OutOfBounds
logging.disable(logging.CRITICAL)
NOW=datetime.now(timezone.utc)
rng=random.Random(int(sys.argv[1])); bad=0; n=0
for it in range(int(sys.argv[2])):
    comps=[Component(1,C.GRID,None,GridMetadata(Fuse(1e4)))]; conns=[]; nid=2; groups=[]
    for g in range(rng.randint(1,3)):
        nb=rng.choice([1,1,2,3]); ni=rng.choice([1,1,2,3]); invs=[]; bats=[]
        for _ in range(ni): comps.append(Component(nid,C.INVERTER,InverterType.BATTERY)); conns.append(Connection(1,nid)); invs.append(nid); nid+=1
        for _ in range(nb):
            comps.append(Component(nid,C.BATTERY)); bats.append(nid)
            for i in invs: conns.append(Connection(i,nid))
            nid+=1
        groups.append((bats,invs))
    graph=_MicrogridComponentGraph(set(comps),set(conns)); cm=mock.MagicMock(); cm.component_graph=graph
    def bnd():
        iu=rng.randint(0,20)*50; il=-rng.randint(0,20)*50; eu=rng.randint(0,iu//50)*50//rng.choice([1,2,4]); el=-(rng.randint(0,-il//50)*50//rng.choice([1,2,4]))
        return il,el,eu,iu
    data={}; md={}
    for bats,invs in groups:
        for b in bats:
            il,el,eu,iu=bnd(); data[b]=BatteryDataWrapper(component_id=b,timestamp=NOW,capacity=1000.0,soc=50.0,soc_lower_bound=10.0,soc_upper_bound=90.0,power_inclusion_lower_bound=il,power_exclusion_lower_bound=el,power_exclusion_upper_bound=eu,power_inclusion_upper_bound=iu)
            md[b]=ComponentMetricsData(b,NOW,{M.POWER_INCLUSION_LOWER_BOUND:il,M.POWER_EXCLUSION_LOWER_BOUND:el,M.POWER_EXCLUSION_UPPER_BOUND:eu,M.POWER_INCLUSION_UPPER_BOUND:iu})
        for i in invs:
            il,el,eu,iu=bnd(); data[i]=InverterDataWrapper(component_id=i,timestamp=NOW,active_power_inclusion_lower_bound=il,active_power_exclusion_lower_bound=el,active_power_exclusion_upper_bound=eu,active_power_inclusion_upper_bound=iu)
            md[i]=ComponentMetricsData(i,NOW,{M.ACTIVE_POWER_INCLUSION_LOWER_BOUND:il,M.ACTIVE_POWER_EXCLUSION_LOWER_BOUND:el,M.ACTIVE_POWER_EXCLUSION_UPPER_BOUND:eu,M.ACTIVE_POWER_INCLUSION_UPPER_BOUND:iu})
    allb={b for bats,_ in groups for b in bats}
    with mock.patch.object(connection_manager,"_CONNECTION_MANAGER",cm):
        sb=PowerBoundsCalculator(allb).calculate(md,set(allb))
    pairs=[InvBatPair(AggregatedBatteryData([data[b] for b in bats]),[data[i] for i in invs]) for bats,invs in groups]
    mgr=BatteryManager.__new__(BatteryManager); mgr._battery_caches={b:None for b in allb}
    enf=mgr._get_bounds(pairs)
    il,iu=sb.inclusion_bounds.lower.as_watts(),sb.inclusion_bounds.upper.as_watts(); el,eu=sb.exclusion_bounds.lower.as_watts(),sb.exclusion_bounds.upper.as_watts()
    n+=1
    if (il,iu)!=(enf.inclusion_lower,enf.inclusion_upper): bad+=1; print("INCL differ",(il,iu),enf)
    minp_up=sum(max(p.battery.power_bounds.exclusion_upper,min(i.active_power_exclusion_upper_bound for i in p.inverter)) for p in pairs)
    minp_lo=sum(min(p.battery.power_bounds.exclusion_lower,max(i.active_power_exclusion_lower_bound for i in p.inverter)) for p in pairs)
    for p in {il,el,eu,iu,il+50,iu-50,el-50,eu+50,el+50,eu-50,il-50,iu+50}:
        if p==0: continue
        admitted = il<=p<=iu and not (el<p<eu)
        if not admitted: continue
        for adj in (True,False):
            r=mgr._check_request(Request(power=Power.from_watts(p),component_ids=allb,adjust_power=adj),pairs)
            if isinstance(r,OutOfBounds): bad+=1; print("REJECTED",p,adj,sb.inclusion_bounds,sb.exclusion_bounds,enf)
        if (p>0 and p<minp_up) or (p<0 and p>minp_lo): bad+=1; print("BELOW MINPOWER",p,minp_lo,minp_up,(il,el,eu,iu))
print("n",n,"bad",bad)
