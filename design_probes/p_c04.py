import random, sys
from datetime import datetime, timezone, timedelta
from frequenz.quantities import Power
from frequenz.sdk.timeseries._base_types import Bounds, SystemBounds
from frequenz.sdk.microgrid._power_managing._matryoshka import Matryoshka
from frequenz.sdk.microgrid._power_managing._base_classes import Proposal
IDS = frozenset({1}); W = Power.from_watts
def carve(L,U,el,eu):
    # returns list of closed intervals = [L,U] minus open (el,eu); if el==eu==0 no exclusion
    if el == 0 and eu == 0: return [(L,U)] if L<=U else []
    out=[]
    if L <= min(U, el): out.append((L, min(U, el)))
    if max(L, eu) <= U: out.append((max(L,eu), U))
    return out
def nearest(ivs, x):
    best=None
    for a,b in ivs:
        c = min(max(x,a),b); d=abs(c-x)
        if best is None or d < best[0]-1e-12: best=(d,{c})
        elif abs(d-best[0])<=1e-12: best[1].add(c)
    return best[1]
def ref(sb, props):
    lo,hi = sb.inclusion_bounds.lower.as_watts(), sb.inclusion_bounds.upper.as_watts()
    el,eu = sb.exclusion_bounds.lower.as_watts(), sb.exclusion_bounds.upper.as_watts()
    L,U = lo,hi
    target = {0.0}
    for p in sorted(props, key=lambda p:(p.priority,p.source_id), reverse=True):
        ivs = carve(L,U,el,eu)
        if not ivs: return None  # conflict
        if p.preferred_power is not None:
            x = p.preferred_power.as_watts()
            target = nearest(ivs, x)
            if abs(x) < 1e-9 and L <= 0 <= U: target = target | {0.0}
        pl = p.bounds.lower.as_watts() if p.bounds.lower is not None else L
        pu = p.bounds.upper.as_watts() if p.bounds.upper is not None else U
        L,U = max(L,pl), min(U,pu)
        if not carve(L,U,el,eu): return None
    return target
def mk(rng):
    vals = [0, 10, 20, 30, 50, 100, 200]
    lo = -rng.choice(vals); hi = rng.choice(vals)
    el = -rng.choice([0,0,10,30,50,100]); eu = rng.choice([0,0,10,30,50,100])
    sb = SystemBounds(timestamp=datetime.now(timezone.utc), inclusion_bounds=Bounds(W(lo),W(hi)), exclusion_bounds=Bounds(W(el),W(eu)))
    n = rng.randint(1,4); props=[]
    prios = rng.sample(range(10), n)
    for i in range(n):
        pw = rng.choice([None, None] + [rng.choice([-1,1])*v for v in [0,5,10,15,20,30,40,50,100,150,250]])
        bl = rng.choice([None, None] + [-v for v in [0,5,10,20,30,50,100,250]] + [5, 20, 40])
        bu = rng.choice([None, None] + [v for v in [0,5,10,20,30,50,100,250]] + [-5,-20,-40])
        if bl is not None and bu is not None and bl > bu: bl, bu = bu, bl
        props.append(Proposal(source_id=f"s{i}", preferred_power=None if pw is None else W(pw), bounds=Bounds(None if bl is None else W(bl), None if bu is None else W(bu)), component_ids=IDS, priority=prios[i], creation_time=0.0, set_operating_point=False))
    return sb, props
rng = random.Random(int(sys.argv[1])); N=int(sys.argv[2]); bad=0; conf=0; ex=None
for _ in range(N):
    sb, props = mk(rng)
    r = ref(sb, props)
    if r is None: conf+=1; continue
    m = Matryoshka(timedelta(seconds=60)); t=None
    for p in props: t = m.calculate_target_power(IDS, p, sb, must_return_power=True)
    t = t.as_watts()
    if not any(abs(t-x)<1e-9 for x in r):
        bad+=1
        if ex is None or len(ex[1])>len(props): ex=(sb,props,t,r)
print("N",N,"conflict",conf,"bad",bad)
if ex:
    sb,props,t,r = ex
    print("target",t,"ref",r,"incl",sb.inclusion_bounds.lower, sb.inclusion_bounds.upper,"excl",sb.exclusion_bounds.lower, sb.exclusion_bounds.upper)
    for p in sorted(props, key=lambda p:-p.priority): print("   prio",p.priority,p.source_id,"pref",p.preferred_power,"bounds",p.bounds.lower,p.bounds.upper)
