import asyncio, world, logging
from datetime import timedelta
from frequenz.channels import Broadcast
from frequenz.quantities import Quantity
from frequenz.sdk.timeseries import Sample
from frequenz.sdk.timeseries.formula_engine._formula_engine import FormulaBuilder, FormulaEngine3Phase
logging.disable(logging.CRITICAL)
async def main():
    chans = [Broadcast[Sample[Quantity]](name=f"p{i}") for i in range(3)]
    engines = []
    for i,c in enumerate(chans):
        b = FormulaBuilder(f"ph{i}", Quantity); b.push_metric(f"m{i}", c.new_receiver(), nones_are_zeros=False); engines.append(b.build())
    e3 = FormulaEngine3Phase("x", Quantity, tuple(engines))
    rx = e3.new_receiver()
    await world.settle()
    snd = [c.new_sender() for c in chans]
    first = [0, 1, 0]   # phase 2 stream begins one tick later
    for k in range(5):
        for i in range(3):
            if k >= first[i]:
                await snd[i].send(Sample(world.T0 + timedelta(seconds=k), Quantity(float((k+1)*1000**i))))
        await world.settle()
    out=[]
    while True:
        try: out.append(await asyncio.wait_for(rx.receive(), 0.5))
        except asyncio.TimeoutError: break
    for s in out: print(s.timestamp.second, s.value_p1 and s.value_p1.base_value, s.value_p2 and s.value_p2.base_value, s.value_p3 and s.value_p3.base_value)
world.run(main)
