import math, random, sys, os
MULTI=int(os.environ.get('MULTI','1')); ZH=int(os.environ.get('ZH','1')); EXP0=int(os.environ.get('EXP0','1')); EXCL=int(os.environ.get('EXCL','1'))
from datetime import datetime, timezone
from frequenz.client.microgrid import BatteryData, InverterData
sys.path.insert(0, "/repo")
from tests.utils.component_data_wrapper import BatteryDataWrapper, InverterDataWrapper
from frequenz.sdk.microgrid._power_distributing._distribution_algorithm import (
    AggregatedBatteryData, BatteryDistributionAlgorithm, InvBatPair)

NOW = datetime.now(timezone.utc)
def gen(rng):
    ngroups = rng.randint(1, 4)
    pairs = []
    cid = 0
    for g in range(ngroups):
        nb = rng.choice([1,1,1,2,3]) if MULTI else 1; ni = rng.choice([1,1,1,2,3]) if MULTI else 1
        bats=[]; invs=[]
        for b in range(nb):
            cid += 1
            lo = rng.choice([0,10,20]); hi = rng.choice([80,90,100])
            soc = rng.choice([lo, hi, rng.uniform(lo,hi), rng.uniform(0,100)]) if ZH else rng.uniform(lo+1,hi-1)
            iu = rng.choice([0, rng.uniform(0, 5000), 1000])
            il = -rng.choice([0, rng.uniform(0, 5000), 1000])
            eu = rng.choice([0,0, rng.uniform(0, iu) if iu>0 else 0, 100 if iu>=100 else 0]) if EXCL else 0
            el = -rng.choice([0,0, rng.uniform(0, -il) if il<0 else 0, 100 if il<=-100 else 0]) if EXCL else 0
            bats.append(BatteryDataWrapper(component_id=cid, timestamp=NOW, capacity=rng.choice([rng.uniform(1,1e5), 1000.0]),
                soc=soc, soc_lower_bound=lo, soc_upper_bound=hi,
                power_inclusion_lower_bound=il, power_exclusion_lower_bound=el,
                power_exclusion_upper_bound=eu, power_inclusion_upper_bound=iu))
        for i in range(ni):
            cid += 1
            iu = rng.choice([0, rng.uniform(0, 5000), 1000])
            il = -rng.choice([0, rng.uniform(0, 5000), 1000])
            eu = rng.choice([0,0, rng.uniform(0, iu) if iu>0 else 0, 100 if iu>=100 else 0]) if EXCL else 0
            el = -rng.choice([0,0, rng.uniform(0, -il) if il<0 else 0, 100 if il<=-100 else 0]) if EXCL else 0
            invs.append(InverterDataWrapper(component_id=cid, timestamp=NOW,
                active_power_inclusion_lower_bound=il, active_power_exclusion_lower_bound=el,
                active_power_exclusion_upper_bound=eu, active_power_inclusion_upper_bound=iu))
        pairs.append(InvBatPair(AggregatedBatteryData(bats), invs))
    return pairs

def adv_bounds(pairs):
    # advertised (metric calculator style)
    iu = sum(min(b.power_bounds.inclusion_upper, sum(i.active_power_inclusion_upper_bound for i in invs)) for b, invs in pairs)
    il = sum(max(b.power_bounds.inclusion_lower, sum(i.active_power_inclusion_lower_bound for i in invs)) for b, invs in pairs)
    eu = sum(max(b.power_bounds.exclusion_upper, sum(i.active_power_exclusion_upper_bound for i in invs)) for b, invs in pairs)
    el = sum(min(b.power_bounds.exclusion_lower, sum(i.active_power_exclusion_lower_bound for i in invs)) for b, invs in pairs)
    return il, el, eu, iu

def check(pairs, power, exp):
    alg = BatteryDistributionAlgorithm(exp)
    try:
        res = alg.distribute_power(power, pairs)
    except Exception as e:
        return [f"EXC {type(e).__name__}: {e}"]
    errs=[]
    tot = sum(res.distribution.values())
    tol = 1e-6*max(1,abs(power))
    if abs(tot + res.remaining_power - power) > tol: errs.append(f"C01 sum: tot={tot} rem={res.remaining_power} power={power}")
    sgn = 1 if power>0 else -1
    for k,v in res.distribution.items():
        if v*sgn < -tol: errs.append(f"C01 sign inv {k}: {v}")
    if res.remaining_power*sgn < -tol: errs.append(f"C01 rem sign {res.remaining_power}")
    if abs(res.remaining_power) > abs(power)+tol: errs.append(f"C01 rem mag {res.remaining_power}")
    # C02
    for bat, invs in pairs:
        gtot = 0
        for inv in invs:
            v = res.distribution[inv.component_id]; gtot += v
            if abs(v) <= tol: continue
            if not (inv.active_power_inclusion_lower_bound - tol <= v <= inv.active_power_inclusion_upper_bound + tol):
                errs.append(f"C02 inv {inv.component_id} incl: {v} not in [{inv.active_power_inclusion_lower_bound},{inv.active_power_inclusion_upper_bound}]")
            if inv.active_power_exclusion_lower_bound + tol < v < inv.active_power_exclusion_upper_bound - tol:
                errs.append(f"C02 inv {inv.component_id} excl: {v} in ({inv.active_power_exclusion_lower_bound},{inv.active_power_exclusion_upper_bound})")
        pb = bat.power_bounds
        if abs(gtot) > tol:
            if not (pb.inclusion_lower - tol <= gtot <= pb.inclusion_upper + tol):
                errs.append(f"C02 group {bat.component_id} incl: {gtot} not in [{pb.inclusion_lower},{pb.inclusion_upper}]")
            if pb.exclusion_lower + tol < gtot < pb.exclusion_upper - tol:
                errs.append(f"C02 group {bat.component_id} excl: {gtot} in ({pb.exclusion_lower},{pb.exclusion_upper})")
            if power>0 and bat.soc >= bat.soc_upper_bound: errs.append(f"C02 group {bat.component_id} full but charged {gtot}")
            if power<0 and bat.soc <= bat.soc_lower_bound: errs.append(f"C02 group {bat.component_id} empty but discharged {gtot}")
    return errs

rng = random.Random(int(sys.argv[1]) if len(sys.argv)>1 else 1)
N = int(sys.argv[2]) if len(sys.argv)>2 else 20000
from collections import Counter
cnt = Counter(); examples = {}
n_ok = 0
for n in range(N):
    pairs = gen(rng)
    il, el, eu, iu = adv_bounds(pairs)
    exp = rng.choice([0, 0.5, 1, 1, 2, 3]) if EXP0 else rng.choice([0.5,1,1,2,3])
    # choose admitted power
    cands = []
    if iu > 0 and iu >= eu: cands += [eu if eu>0 else None, iu, rng.uniform(eu, iu), iu*1.5+1]
    if il < 0 and il <= el: cands += [el if el<0 else None, il, rng.uniform(il, el), il*1.5-1]
    cands = [c for c in cands if c is not None and abs(c) > 1e-6]
    if not cands: continue
    power = rng.choice(cands)
    ok = True
    for b, invs in pairs:
        pb = b.power_bounds
        mu = max(pb.exclusion_upper, min(i.active_power_exclusion_upper_bound for i in invs))
        iu_g = min(pb.inclusion_upper, sum(i.active_power_inclusion_upper_bound for i in invs))
        ml = min(pb.exclusion_lower, max(i.active_power_exclusion_lower_bound for i in invs))
        il_g = max(pb.inclusion_lower, sum(i.active_power_inclusion_lower_bound for i in invs))
        if mu > iu_g or ml < il_g or pb.exclusion_upper > pb.inclusion_upper or pb.exclusion_lower < pb.inclusion_lower: ok = False
    if not ok: continue
    n_ok += 1
    errs = check(pairs, power, exp)
    def zero_headroom_minpower(pairs, power):
        for b, invs in pairs:
            pb = b.power_bounds
            if power > 0:
                head = max(0.0, b.soc_upper_bound - b.soc); mp = max(pb.exclusion_upper, min(i.active_power_exclusion_upper_bound for i in invs))
            else:
                head = max(0.0, b.soc - b.soc_lower_bound); mp = -min(pb.exclusion_lower, max(i.active_power_exclusion_lower_bound for i in invs))
            if head <= 1e-9 and mp > 0: return True
        return False
    def any_minpower(pairs, power):
        for b, invs in pairs:
            pb = b.power_bounds
            if power > 0: mp = max(pb.exclusion_upper, min(i.active_power_exclusion_upper_bound for i in invs))
            else: mp = -min(pb.exclusion_lower, max(i.active_power_exclusion_lower_bound for i in invs))
            if mp > 0: return True
        return False
    cls = "ZH" if zero_headroom_minpower(pairs, power) else ("MP" if any_minpower(pairs, power) else "NOMP")
    for e in errs:
        key = e.split(":")[0].split(" ")[0:3]; key = cls + " " + " ".join(k for k in key if not k.isdigit()) + (" full/empty" if "full" in e or "empty" in e else "")
        cnt[key]+=1
        if key not in examples: examples[key] = (e, power, exp, [(b, invs) for b, invs in pairs])
print("cases", n_ok, cnt)
for k,(e,power,exp,pairs) in examples.items():
    print("====",k, e, "power",power,"exp",exp)
    for b, invs in pairs:
        print("  BAT", b.component_id, "cap",b.capacity, "soc",b.soc, b.soc_lower_bound, b.soc_upper_bound, b.power_bounds)
        for i in invs: print("     INV", i.component_id, i.active_power_inclusion_lower_bound, i.active_power_exclusion_lower_bound, i.active_power_exclusion_upper_bound, i.active_power_inclusion_upper_bound)
