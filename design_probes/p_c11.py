import asyncio, random, sys
from datetime import datetime, timezone
from unittest import mock
from frequenz.channels import Broadcast
from frequenz.client.microgrid import ComponentCategory
from frequenz.quantities import Power
from frequenz.sdk._internal._channels import ChannelRegistry
from frequenz.sdk.timeseries._base_types import Bounds, SystemBounds
from frequenz.sdk.microgrid import _power_distributing as pd
from frequenz.sdk.microgrid._power_managing import _power_managing_actor as pma
from frequenz.sdk.microgrid._power_managing._base_classes import Proposal, ReportRequest, _Report
from frequenz.sdk.actor import _actor
_actor.Actor._restart_limit = 0

IDS = frozenset({1,2})
async def settle(n=30):
    for _ in range(n): await asyncio.sleep(0)

async def run(seed, steps):
    rng = random.Random(seed)
    bounds_chan = Broadcast[SystemBounds](name="bounds", resend_latest=True)
    class FakePool:
        class _B:
            def new_receiver(self_inner, *a, **k): return bounds_chan.new_receiver()
        _system_power_bounds = _B()
    proposals = Broadcast[Proposal](name="p"); subs = Broadcast[ReportRequest](name="s")
    reqs = Broadcast[pd.Request](name="r"); results = Broadcast[pd.Result](name="res")
    reg = ChannelRegistry(name="reg")
    req_rx = reqs.new_receiver(limit=1000)
    with mock.patch.object(pma._data_pipeline, "new_battery_pool", lambda **kw: FakePool()):
        actor = pma.PowerManagingActor(proposals.new_receiver(), subs.new_receiver(), reqs.new_sender(), results.new_receiver(), reg, component_category=ComponentCategory.BATTERY)
        actor.start()
        await settle()
        # subscribe reports for both groups
        rep_rx = {}
        for op in (False, True):
            for prio in (1,2):
                rr = ReportRequest(source_id=f"a{prio}{op}", component_ids=IDS, priority=prio, set_operating_point=op)
                ch = reg.get_or_create(_Report, rr.get_channel_name())
                # NOTE channel name doesn't include op flag!
                rep_rx[(op,prio)] = ch.new_receiver(limit=1000)
                await subs.new_sender().send(rr)
        await settle()
        bs = bounds_chan.new_sender(); ps = proposals.new_sender()
        cur_bounds = None
        log = []
        for step in range(steps):
            kind = rng.choice(["bounds","reg","op","reg","op"])
            if kind == "bounds" or cur_bounds is None:
                lo = -rng.choice([0, 50, 100, 200, 1000]); hi = rng.choice([0, 50, 100, 200, 1000])
                cur_bounds = SystemBounds(timestamp=datetime.now(timezone.utc), inclusion_bounds=Bounds(Power.from_watts(lo), Power.from_watts(hi)), exclusion_bounds=Bounds(Power.zero(), Power.zero()))
                await bs.send(cur_bounds); log.append(("bounds", lo, hi))
            else:
                pw = rng.choice([None, -150, -60, -20, 0, 20, 60, 150, 500])
                prio = rng.choice([1,2])
                p = Proposal(source_id=f"a{prio}{kind}", preferred_power=None if pw is None else Power.from_watts(pw), bounds=Bounds(None, None), component_ids=IDS, priority=prio, creation_time=asyncio.get_running_loop().time(), set_operating_point=(kind=="op"))
                await ps.send(p); log.append((kind, prio, pw))
            await settle()
            # collect requests
            sent = []
            while True:
                try: sent.append(req_rx.consume() if await asyncio.wait_for(req_rx.ready(), 0.001) else None)
                except asyncio.TimeoutError: break
            reg_t = actor._set_power_group.get_target_power(IDS); op_t = actor._set_op_power_group.get_target_power(IDS)
            if sent:
                last = sent[-1].power.as_watts()
                exp = (reg_t.as_watts() if reg_t else 0) + (op_t.as_watts() if op_t else 0)
                lo_w = cur_bounds.inclusion_bounds.lower.as_watts(); hi_w = cur_bounds.inclusion_bounds.upper.as_watts()
                bad = []
                if abs(last - exp) > 1e-6: bad.append(f"sum: sent {last} != reg {reg_t} + op {op_t}")
                if not (lo_w - 1e-6 <= last <= hi_w + 1e-6): bad.append(f"bounds: sent {last} not in [{lo_w},{hi_w}]")
                if bad:
                    await actor.stop()
                    return bad, log
        await actor.stop()
    return None, None

n_bad = 0; first = {}
for seed in range(int(sys.argv[1])):
    bad, log = asyncio.run(run(seed, 12))
    if bad:
        n_bad += 1
        k = bad[0].split(":")[0]
        if k not in first or len(first[k][1]) > len(log): first[k] = (bad, log)
print("bad", n_bad)
for k,v in first.items(): print(k, v)
