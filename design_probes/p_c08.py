import asyncio, world, logging, random, sys, math
from datetime import datetime, timezone, timedelta
from frequenz.channels import Broadcast
from frequenz.quantities import Quantity
from frequenz.sdk.timeseries import Sample
from frequenz.sdk.timeseries._resampling import Resampler, ResamplerConfig
logging.disable(logging.CRITICAL)
async def main(seed):
    rng=random.Random(seed); loop=asyncio.get_running_loop()
    p=timedelta(seconds=1); age=rng.choice([1.0,1.5,2.0,3.0]); ibl=rng.choice([1,2,4,16])
    calls={}
    def rec(samples,cfg,props):
        calls["cur"]=([ (s.timestamp, s.value.base_value) for s in samples], props.sampling_period); return 1.0
    r=Resampler(ResamplerConfig(resampling_period=p,max_data_age_in_periods=age,resampling_function=rec,initial_buffer_len=ibl,align_to=None))
    ch=Broadcast[Sample[Quantity]](name="x"); rx=ch.new_receiver(limit=10000); out=[]
    async def sink(s): out.append(s)
    r.add_timeseries("x",rx,sink); snd=ch.new_sender()
    A=[]; errs=[]; last_ts=world.T0-timedelta(days=1); ctr=0
    q=p/4
    for tick in range(1,25):
        T=world.T0+tick*p
        # arrivals during (T-p, T]
        t_arr=T-p
        for _ in range(rng.choice([0,0,1,2,4,6])):
            t_arr=min(T, t_arr+rng.choice([0,1,1,2,4])*q)
            dt=(t_arr-datetime.now(timezone.utc)).total_seconds()
            if dt>0: await asyncio.sleep(dt)
            stamp=max(last_ts, t_arr+rng.choice([0,0,0,-1,1,2,5])*q); last_ts=stamp
            kind=rng.choice(["v","v","v","v","none","nan"]); ctr+=1
            val=Quantity(float(ctr)) if kind=="v" else (None if kind=="none" else Quantity(float("nan")))
            await snd.send(Sample(stamp,val)); await world.settle()
            if kind=="v": A.append((stamp,float(ctr)))
        dt=(T-datetime.now(timezone.utc)).total_seconds()
        if dt>0: await asyncio.sleep(dt)
        await world.settle()
        calls.pop("cur",None)
        await r.resample(one_shot=True)
        s=out[-1]
        if s.timestamp!=T: errs.append(f"tick ts {s.timestamp} != {T}"); break
        F,pin = calls.get("cur",([],r.get_source_properties(rx).sampling_period))
        mp = max(p,pin) if pin is not None else p
        lo = T - mp*age
        ok=False
        for c in range(1,len(A)+2):
            exp=[x for x in A[-c:] if lo < x[0] <= T] if A else []
            if exp==F: ok=True; break
        if not A and not F: ok=True
        if not ok: errs.append(f"T={T} F={F} A={A[-6:]} lo={lo} pin={pin}"); break
        if (s.value is None) != (len(F)==0): errs.append(f"None-ness T={T} F={F} value={s.value}"); break
        if A and lo < A[-1][0] <= T and not F: errs.append(f"newest arrival in window but F empty T={T}"); break
    return errs
bad=0
for seed in range(int(sys.argv[1])):
    errs=world.run(lambda: main(seed))
    if errs:
        bad+=1
        if bad<=3: print(seed, errs[0][:600])
print("bad",bad)
