import asyncio, world, logging, random, sys
from datetime import datetime, timezone, timedelta
from frequenz.channels import Broadcast
from frequenz.quantities import Quantity
from frequenz.sdk.timeseries import Sample
from frequenz.sdk.timeseries._resampling import Resampler, ResamplerConfig
logging.disable(logging.CRITICAL)
US=timedelta(microseconds=1)
async def main(seed):
    rng=random.Random(seed); loop=asyncio.get_running_loop()
    period=rng.choice([timedelta(seconds=0.2),timedelta(seconds=1),timedelta(seconds=1.5),timedelta(seconds=7)])
    align=rng.choice([None, world.T0-timedelta(days=3), world.T0-timedelta(days=3)+period*0.37, world.T0+timedelta(hours=5)+period*0.11, datetime(1970,1,1,tzinfo=timezone.utc)])
    # creation phase relative to grid
    phase=rng.choice([timedelta(0), US, period/2, period-US])
    base = align if align is not None else world.T0
    k = ((world.T0 - base)//period)+rng.randint(1,5)
    creation = base + k*period + phase
    await asyncio.sleep((creation-world.T0).total_seconds())
    assert datetime.now(timezone.utc)==creation, (datetime.now(timezone.utc), creation)
    r=Resampler(ResamplerConfig(resampling_period=period, align_to=align))
    outs={}; excs=[]
    lat_script=[rng.choice([0,0,0,0.3,1.0,2.5]) for _ in range(40)]
    def mk(name, slow):
        outs[name]=[]
        async def sink(s):
            outs[name].append((s.timestamp, loop.time()))
            if slow:
                l=lat_script[len(outs[name])%40]
                if l: await asyncio.sleep(l*period.total_seconds())
        return sink
    chans=[]
    def add(name, slow=False):
        ch=Broadcast[Sample[Quantity]](name=name); chans.append(ch); r.add_timeseries(name, ch.new_receiver(), mk(name, slow))
    add("s0", slow=rng.random()<0.6)
    if rng.random()<0.5: add("s1")
    init_delay=rng.choice([0,0.5,3.7])*period.total_seconds()
    async def driver():
        await asyncio.sleep(init_delay)
        while True:
            try: await r.resample()
            except asyncio.CancelledError: raise
            except Exception as e: excs.append(type(e).__name__)
    t=asyncio.create_task(driver())
    add_at=rng.choice([None, 2.3, 4.0, 6.6])
    horizon=20*period.total_seconds()
    if add_at is not None:
        await asyncio.sleep(add_at*period.total_seconds()); add("late")
        await asyncio.sleep(horizon-add_at*period.total_seconds())
    else: await asyncio.sleep(horizon)
    t.cancel()
    errs=[]
    for name,o in outs.items():
        tsl=[x[0] for x in o]
        if not tsl: errs.append(f"{name} empty"); continue
        for a,b in zip(tsl,tsl[1:]):
            if b-a!=period: errs.append(f"{name} step {a}->{b}"); break
        if align is not None and (tsl[0]-align)%period: errs.append(f"{name} not aligned {tsl[0]}")
        if name!="late":
            if not (creation < tsl[0] <= creation+2*period): errs.append(f"{name} first {tsl[0]} creation {creation}")
            if align is None and tsl[0]!=creation+period: errs.append(f"{name} first(None) {tsl[0]}")
    if "s1" in outs and [x[0] for x in outs["s1"]][:len(outs["s0"])] != [x[0] for x in outs["s0"]][:len(outs["s1"])]: errs.append("s0/s1 differ")
    if "late" in outs and outs["late"]:
        l=[x[0] for x in outs["late"]]; s0=[x[0] for x in outs["s0"]]
        if l[0] not in s0 or s0[s0.index(l[0]):][:len(l)]!=l[:len(s0)-s0.index(l[0])]: errs.append("late differs")
    return errs, excs, (period, align, phase, init_delay, add_at)
bad=0; exc_seen=set()
for seed in range(int(sys.argv[1])):
    errs,excs,cfg=world.run(lambda: main(seed))
    exc_seen|=set(excs)
    if errs:
        bad+=1
        if bad<=3: print(seed,errs[:3],cfg)
print("bad",bad,"exceptions seen",exc_seen)
