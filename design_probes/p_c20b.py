import asyncio, world, logging, sys, random
from datetime import datetime, timezone, timedelta
from unittest import mock
from frequenz.channels import Broadcast
from frequenz.client.microgrid import Component, ComponentCategory as C, ComponentMetricId as M, MeterData
from frequenz.quantities import Quantity
sys.path.insert(0,"/repo")
from tests.utils.component_data_wrapper import MeterDataWrapper
from frequenz.sdk._internal._channels import ChannelRegistry
from frequenz.sdk.microgrid import connection_manager
from frequenz.sdk.microgrid._data_sourcing import ComponentMetricRequest, DataSourcingActor
from frequenz.sdk.timeseries import Sample
from frequenz.sdk.actor import _actor
_actor.Actor._restart_limit = 0
logging.disable(logging.CRITICAL)
async def main(seed):
    rng=random.Random(seed)
    mch=Broadcast[MeterData](name="m")
    class Api:
        async def components(self): return [Component(4,C.METER)]
        async def meter_data(self,cid,maxsize=50): return mch.new_receiver(limit=1000)
    cm=mock.MagicMock(); cm.api_client=Api()
    with mock.patch.object(connection_manager,"_CONNECTION_MANAGER",cm):
        reg=ChannelRegistry(name="reg"); reqs=Broadcast[ComponentMetricRequest](name="req")
        actor=DataSourcingActor(reqs.new_receiver(limit=1000), reg); actor.start(); await world.settle()
        rsend=reqs.new_sender(); msend=mch.new_sender()
        subs={}; k=0; sent_at={}; ops=[]; k_settled=0
        metrics=[M.ACTIVE_POWER, M.VOLTAGE_PHASE_1, M.FREQUENCY]
        for step in range(40):
            op=rng.choice(["sub","msg","msg","msg","settle"])
            if op=="sub":
                ns=rng.choice(["a","b","c"]); m=rng.choice(metrics)
                r=ComponentMetricRequest(ns,4,m,None); name=r.get_channel_name()
                if name not in subs: subs[name]=(reg.get_or_create(Sample[Quantity],name).new_receiver(limit=1000), m, k_settled)
                await rsend.send(r); ops.append(("sub",ns,m.name))
            elif op=="msg":
                k+=1
                await msend.send(MeterDataWrapper(component_id=4,timestamp=world.T0+timedelta(seconds=k),active_power=k*100.0+0,voltage_per_phase=(k*100.0+1,0.0,0.0),frequency=k*100.0+2)); ops.append(("msg",k))
            else:
                await world.settle(); k_settled=k; ops.append(("settle",))
        await world.settle()
        bad=[]
        for name,(rx,m,k_sub) in subs.items():
            got=[]
            while True:
                try:
                    if not await asyncio.wait_for(rx.ready(),1e-6): break
                    got.append(rx.consume())
                except asyncio.TimeoutError: break
            ks=[int(s.value.base_value)//100 for s in got]
            if ks and (ks!=list(range(ks[0],ks[0]+len(ks))) or ks[-1]!=k): bad.append((name,ks,k))
            if ks and ks[0]<=k_sub: bad.append(("early",name,ks,k_sub))
            for s in got:
                kk=int(s.value.base_value)//100
                if s.timestamp!=world.T0+timedelta(seconds=kk) or int(s.value.base_value)%100!=metrics.index(m): bad.append(("content",name,s))
        await actor.stop()
        return bad, ops
tot=0
for seed in range(int(sys.argv[1])):
    bad,ops=world.run(lambda: main(seed))
    if bad: tot+=1; print(seed,bad[:2]); print(ops); break
print("bad",tot)
