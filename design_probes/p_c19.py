import asyncio, world, logging, sys
from datetime import timedelta
from frequenz.channels import Broadcast
from frequenz.quantities import Quantity
from frequenz.sdk.timeseries import Sample
from frequenz.sdk.timeseries.formula_engine._formula_engine import FormulaBuilder
from frequenz.sdk.timeseries.formula_engine._formula_steps import FallbackMetricFetcher
logging.disable(logging.CRITICAL)
class FB(FallbackMetricFetcher):
    def __init__(self, chan): self._chan=chan; self._rx=None
    @property
    def name(self): return "fb"
    @property
    def is_running(self): return self._rx is not None
    def start(self): self._rx = self._chan.new_receiver()
    async def ready(self):
        if self._rx is None: self.start()
        return await self._rx.ready()
    def consume(self): return self._rx.consume()
async def main(close_at, prim_valid):
    pa = Broadcast[Sample[Quantity]](name="pa"); fa = Broadcast[Sample[Quantity]](name="fa"); pb = Broadcast[Sample[Quantity]](name="pb")
    b = FormulaBuilder("f", Quantity)
    b.push_metric("A", pa.new_receiver(), nones_are_zeros=False, fallback=FB(fa)); b.push_oper("+"); b.push_metric("B", pb.new_receiver(), nones_are_zeros=False)
    e = b.build(); rx = e.new_receiver(); await world.settle()
    sa, sf, sb = pa.new_sender(), fa.new_sender(), pb.new_sender()
    for k in range(10):
        ts = world.T0 + timedelta(seconds=k)
        await sf.send(Sample(ts, Quantity(float(100*(k+1)))))       # fallback value 100*(k+1)
        if close_at is not None and k == close_at: await pa.close()
        if close_at is None or k < close_at:
            await sa.send(Sample(ts, Quantity(float(k+1)) if prim_valid(k) else None))  # primary value k+1
        await sb.send(Sample(ts, Quantity(float(10000*(k+1)))))
        await world.settle()
    out=[]
    while True:
        try: out.append(await asyncio.wait_for(rx.receive(), 0.5))
        except asyncio.TimeoutError: break
    print([(s.timestamp.second, None if s.value is None else s.value.base_value) for s in out])
print("primary invalid at k in 3..5:"); world.run(lambda: main(None, lambda k: not (3<=k<=5)))
print("primary closed at k=4:"); world.run(lambda: main(4, lambda k: True))
