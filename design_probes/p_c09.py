import numpy as np
from datetime import datetime, timezone, timedelta
from frequenz.quantities import Quantity
from frequenz.sdk.timeseries import Sample
from frequenz.sdk.timeseries._ringbuffer import OrderedRingBuffer
E = datetime(1970,1,1,tzinfo=timezone.utc)
def ts(x): return E + timedelta(seconds=x)
for cont in ("list","np"):
    buf = OrderedRingBuffer([0.0]*5 if cont=="list" else np.zeros(5), timedelta(seconds=1))
    for k in range(0, 8):
        buf.update(Sample(ts(k), Quantity(100.0+k)))
    buf.update(Sample(ts(10), Quantity(110.0)))  # jump: slots 8,9 unwritten
    print(cont, "gaps", [(g.start.timestamp(), g.end.timestamp()) for g in buf.gaps], "valid", buf.count_valid(), "oldest", buf.oldest_timestamp.timestamp(), "newest", buf.newest_timestamp.timestamp())
    print("  full idx", list(buf.window(None, None)))
    print("  [6.0,11.0)", list(buf.window(ts(6), ts(11))))
    print("  [6.4,10.4)", list(buf.window(ts(6.4), ts(10.4))))
    print("  [7.5,8.5) half-even same slot?", list(buf.window(ts(7.5), ts(8.5))))
    print("  [7.2,7.4)", list(buf.window(ts(7.2), ts(7.4))))
    print("  [7.6,8.4)", list(buf.window(ts(7.6), ts(8.4))))
    print("  [6.6,9.6)", list(buf.window(ts(6.6), ts(9.6))))
