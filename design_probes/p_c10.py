import asyncio, async_solipsism
from frequenz.sdk.actor import Actor
runs = []
class A(Actor):
    async def _run(self):
        runs.append(asyncio.get_running_loop().time())
        try:
            await asyncio.sleep(1000)
        except asyncio.CancelledError:
            raise RuntimeError("cleanup failed")
async def main():
    a = A(); a.start()
    await asyncio.sleep(1)
    t = asyncio.create_task(a.stop())
    await asyncio.sleep(10)
    print("runs at", runs, "stop done?", t.done(), "is_running", a.is_running)
    a.cancel(); 
    await asyncio.sleep(10)
    print("runs at", runs, "stop done?", t.done(), "is_running", a.is_running)
    t.cancel()
loop = async_solipsism.EventLoop(); asyncio.set_event_loop(loop); loop.run_until_complete(main())
