import random, sys, logging
from datetime import datetime, timezone
from unittest import mock
from collections import Counter
from frequenz.channels import Broadcast
from frequenz.client.microgrid import Component, ComponentCategory, Connection, InverterType, GridMetadata, Fuse
from frequenz.quantities import Power
from frequenz.sdk._internal._channels import ChannelRegistry
from frequenz.sdk.microgrid import connection_manager
from frequenz.sdk.microgrid.component_graph import _MicrogridComponentGraph
from frequenz.sdk.timeseries import Sample
from frequenz.sdk.timeseries.formula_engine._formula_steps import MetricFetcher
from frequenz.sdk.timeseries.formula_engine._formula_generators import (
    GridPowerFormula, ConsumerPowerFormula, ProducerPowerFormula, BatteryPowerFormula, PVPowerFormula, EVChargerPowerFormula, CHPPowerFormula, FormulaGeneratorConfig)
logging.disable(logging.CRITICAL)
C = ComponentCategory
TS = datetime(2024,1,1,tzinfo=timezone.utc)

class G:
    def __init__(self): self.comps=[]; self.conns=[]; self.nid=1; self.kind={}; self.children={}; self.load={}
    def add(self, cat, typ=None, parent=None, kind=None):
        cid=self.nid; self.nid+=1
        self.comps.append(Component(cid, cat, typ, GridMetadata(Fuse(1000.0)) if cat==C.GRID else None))
        if parent is not None: self.conns.append(Connection(parent,cid)); self.children.setdefault(parent,[]).append(cid)
        self.kind[cid]=kind; self.children.setdefault(cid,[])
        return cid

def gen_subtree(g, rng, parent, depth, allow_meter=True):
    kinds = ["batinv","pvinv","ev"] + (["meter","meter","chpmeter"] if allow_meter and depth<3 else [])
    k = rng.choice(kinds)
    if k=="batinv":
        i = g.add(C.INVERTER, InverterType.BATTERY, parent, "batinv")
        for _ in range(rng.choice([1,1,2])): g.add(C.BATTERY, None, i, "bat")
    elif k=="pvinv": g.add(C.INVERTER, InverterType.SOLAR, parent, "pvinv")
    elif k=="ev": g.add(C.EV_CHARGER, None, parent, "ev")
    elif k=="chpmeter":
        m = g.add(C.METER, None, parent, "meter")
        for _ in range(rng.choice([1,1,2])): g.add(C.CHP, None, m, "chp")
    else:
        m = g.add(C.METER, None, parent, "meter")
        for _ in range(rng.choice([0,1,1,2,3])): gen_subtree(g, rng, m, depth+1)

def gen(rng):
    g = G(); grid = g.add(C.GRID, None, None, "grid")
    if rng.random()<0.5:
        gm = g.add(C.METER, None, grid, "meter")
        for _ in range(rng.randint(1,4)): gen_subtree(g, rng, gm, 1)
    else:
        for _ in range(rng.randint(1,4)): gen_subtree(g, rng, grid, 0)
    return g, grid

def dedicated(g, m):
    ch = g.children[m]
    if not ch: return False
    ks = {g.kind[c] for c in ch}
    return len(ks)==1 and ks <= {"batinv","pvinv","ev","chp"}

def assign(g, rng):
    val={}
    def rec(n):
        k=g.kind[n]
        if k=="batinv": v=rng.choice([-1,1])*rng.randint(1,9)*1.0
        elif k=="pvinv": v=-rng.randint(1,9)*10.0
        elif k=="ev": v=rng.randint(1,9)*100.0
        elif k=="chp": v=-rng.randint(1,9)*1000.0
        elif k=="bat": v=0.0
        elif k in("meter","grid"):
            v=sum(rec(c) for c in g.children[n])
            if k=="meter" and not dedicated(g,n):
                l = rng.randint(1,9)*10000.0; g.load[n]=l; v+=l
        val[n]=v; return v
    rec(1); return val

def evaluate(engine, val):
    steps = engine._builder._steps
    stack=[]
    for s in steps:
        if isinstance(s, MetricFetcher):
            cid = int(repr(s)[1:])
            s._next_value = Sample(TS, Power.from_watts(val[cid]) if cid in val else None)
        s.apply(stack)
    assert len(stack)==1
    return stack[0]

rng = random.Random(int(sys.argv[1])); N=int(sys.argv[2])
cnt=Counter(); ex={}
ngood=0
for it in range(N):
    g, grid = gen(rng)
    try:
        graph = _MicrogridComponentGraph(set(g.comps), set(g.conns))
    except Exception as e:
        cnt["invalid graph"]+=1; continue
    g.load={}
    val = assign(g, rng)
    truth = dict(
        grid=sum(val[c] for c in g.children[grid]),
        consumer=sum(g.load.values()),
        battery=sum(v for n,v in val.items() if g.kind[n]=="batinv"),
        pv=sum(v for n,v in val.items() if g.kind[n]=="pvinv"),
        ev=sum(v for n,v in val.items() if g.kind[n]=="ev"),
        chp=sum(v for n,v in val.items() if g.kind[n]=="chp"))
    truth["producer"]=truth["pv"]+truth["chp"]
    cm = mock.MagicMock(); cm.component_graph = graph
    reg = ChannelRegistry(name="r"); sub = Broadcast(name="sub").new_sender()
    bats = {n for n,k in g.kind.items() if k=="bat"}; evs={n for n,k in g.kind.items() if k=="ev"}; pvs={n for n,k in g.kind.items() if k=="pvinv"}
    gens = dict(grid=(GridPowerFormula,None), consumer=(ConsumerPowerFormula,None), producer=(ProducerPowerFormula,None),
        battery=(BatteryPowerFormula,bats), pv=(PVPowerFormula,pvs), ev=(EVChargerPowerFormula,evs), chp=(CHPPowerFormula,None))
    ngood+=1
    with mock.patch.object(connection_manager, "_CONNECTION_MANAGER", cm):
        got={}
        for name,(cls,ids) in gens.items():
            for fb in (True, False):
                try:
                    eng = cls("ns", reg, sub, FormulaGeneratorConfig(component_ids=ids, allow_fallback=fb)).generate()
                    v = evaluate(eng, val)
                except Exception as e:
                    v = f"EXC {type(e).__name__}"
                key=f"{name}" + (" [gridmeter]" if (len(g.children[grid])==1 and g.kind[g.children[grid][0]]=="meter") else (" [all-plain-meters]" if all(g.kind[c]=="meter" and not dedicated(g,c) for c in g.children[grid]) else " [nogridmeter]"))
                if isinstance(v,str) or abs(v-truth[name])>1e-6:
                    k2 = key+(" "+v if isinstance(v,str) else " wrong")
                    cnt[k2]+=1
                    if k2 not in ex or len(ex[k2][0].comps)>len(g.comps): ex[k2]=(g, dict(val), dict(truth), v, str(eng) if not isinstance(v,str) else None, fb, dict(g.load))
                got[(name,fb)] = v
print("graphs",ngood,cnt)
for k,(g,val,truth,v,f,fb,load) in ex.items():
    print("==",k,"fallback",fb,"got",v,"truth",truth[k.split()[0]],"formula",f)
    def show(n,ind=0):
        print("   "+"  "*ind+f"{n}:{g.kind[n]} val={val.get(n)} load={load.get(n)}")
        for c in g.children[n]: show(c,ind+1)
    show(1)
