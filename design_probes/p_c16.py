import asyncio, world, logging, sys, math
from datetime import datetime, timezone, timedelta
from unittest import mock
from frequenz.channels import Broadcast
from frequenz.client.microgrid import (Component, ComponentCategory as C, Connection, InverterType, GridMetadata, Fuse,
    BatteryComponentState, BatteryRelayState, InverterComponentState, BatteryData, InverterData)
sys.path.insert(0,"/repo")
from tests.utils.component_data_wrapper import BatteryDataWrapper, InverterDataWrapper
from frequenz.sdk.microgrid import connection_manager
from frequenz.sdk.microgrid.component_graph import _MicrogridComponentGraph
from frequenz.sdk.microgrid._power_distributing._component_status import BatteryStatusTracker, ComponentStatus, SetPowerResult
logging.disable(logging.CRITICAL)
async def main():
    loop = asyncio.get_running_loop()
    graph=_MicrogridComponentGraph({Component(1,C.GRID,None,GridMetadata(Fuse(1e4))),Component(8,C.INVERTER,InverterType.BATTERY),Component(9,C.BATTERY)},{Connection(1,8),Connection(8,9)})
    bch=Broadcast[BatteryData](name="b"); ich=Broadcast[InverterData](name="i")
    class Api:
        async def battery_data(self,cid): return bch.new_receiver()
        async def inverter_data(self,cid): return ich.new_receiver()
    cm=mock.MagicMock(); cm.component_graph=graph; cm.api_client=Api()
    with mock.patch.object(connection_manager,"_CONNECTION_MANAGER",cm):
        st=Broadcast[ComponentStatus](name="s"); res=Broadcast[SetPowerResult](name="r")
        srx=st.new_receiver(limit=1000)
        tr=BatteryStatusTracker(9, timedelta(seconds=10), timedelta(seconds=30), st.new_sender(), res.new_receiver())
        tr.start(); await world.settle()
        bs, is_, rs = bch.new_sender(), ich.new_sender(), res.new_sender()
        log=[]
        async def drain(tag):
            await world.settle()
            while True:
                try:
                    if not await asyncio.wait_for(srx.ready(), 1e-6): break
                    log.append((round(loop.time(),3), tag, srx.consume().value.name))
                except asyncio.TimeoutError: break
        def bat(ok=True, **kw):
            d=dict(component_id=9,timestamp=datetime.now(timezone.utc),capacity=1000.0,relay_state=BatteryRelayState.CLOSED,component_state=BatteryComponentState.IDLE); d.update(kw); return BatteryDataWrapper(**d)
        def inv(**kw):
            d=dict(component_id=8,timestamp=datetime.now(timezone.utc),component_state=InverterComponentState.IDLE); d.update(kw); return InverterDataWrapper(**d)
        await bs.send(bat()); await drain("bat ok")
        await is_.send(inv()); await drain("inv ok")
        await rs.send(SetPowerResult(succeeded=set(), failed={9})); await drain("fail1")
        await asyncio.sleep(0.5); await bs.send(bat()); await drain("bat@0.5")
        await asyncio.sleep(0.6); await bs.send(bat()); await drain("bat@1.1")
        await rs.send(SetPowerResult(succeeded=set(), failed={9})); await drain("fail2")
        await asyncio.sleep(1.5); await bs.send(bat()); await drain("bat +1.5")
        await asyncio.sleep(0.6); await bs.send(bat()); await drain("bat +2.1")
        await bs.send(bat(relay_state=BatteryRelayState.OPENED)); await drain("relay open")
        await bs.send(bat()); await drain("bat ok")
        for k in range(12):
            await asyncio.sleep(1.0); await bs.send(bat()); await drain(f"silence inv {k+1}s")
        await tr.stop()
        for l in log: print(l)
world.run(main)
