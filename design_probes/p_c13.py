import asyncio, math
from datetime import datetime, timezone, timedelta
from frequenz.channels import Broadcast
from frequenz.quantities import Power, Quantity
from frequenz.sdk.timeseries import Sample
from frequenz.sdk.timeseries.formula_engine._formula_engine import FormulaBuilder

T0 = datetime(2024,1,1,tzinfo=timezone.utc)
async def run(build, rows, n):
    chans = [Broadcast[Sample[Quantity]](name=f"c{i}") for i in range(n)]
    b = FormulaBuilder("f", Quantity)
    build(b, chans)
    eng = b.build()
    rx = eng.new_receiver()
    senders = [c.new_sender() for c in chans]
    out = []
    for k,row in enumerate(rows):
        ts = T0 + timedelta(seconds=k)
        for s, v in zip(senders, row):
            await s.send(Sample(ts, None if v is None else Quantity(v)))
        for _ in range(20): await asyncio.sleep(0)
        while True:
            try:
                out.append(await asyncio.wait_for(rx.receive(), 0.01))
            except asyncio.TimeoutError:
                break
    await eng._stop()
    return out

def b_max(b, ch):
    b.push_metric("a", ch[0].new_receiver(), nones_are_zeros=False); b.push_oper("max"); b.push_metric("b", ch[1].new_receiver(), nones_are_zeros=False)
def b_min(b, ch):
    b.push_metric("a", ch[0].new_receiver(), nones_are_zeros=False); b.push_oper("min"); b.push_metric("b", ch[1].new_receiver(), nones_are_zeros=False)
def b_div(b, ch):
    b.push_metric("a", ch[0].new_receiver(), nones_are_zeros=False); b.push_oper("/"); b.push_metric("b", ch[1].new_receiver(), nones_are_zeros=False)
rows = [(1.0, 2.0), (None, 2.0), (1.0, None), (5.0, 0.0), (3.0, 4.0), (float('inf'), 1.0), (1.0, float('nan'))]
for name, bf in [("max", b_max), ("min", b_min), ("div", b_div)]:
    out = asyncio.run(run(bf, rows, 2))
    print(name, [(s.timestamp.second, None if s.value is None else s.value.base_value) for s in out])
