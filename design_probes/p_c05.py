import asyncio, world, logging, random, sys
from datetime import timedelta
from fractions import Fraction
from frequenz.channels import Broadcast
from frequenz.client.microgrid import ComponentMetricId
from frequenz.quantities import Quantity
from frequenz.sdk._internal._channels import ChannelRegistry
from frequenz.sdk.microgrid._data_sourcing import ComponentMetricRequest
from frequenz.sdk.timeseries import Sample
from frequenz.sdk.timeseries.formula_engine._resampled_formula_builder import ResampledFormulaBuilder
logging.disable(logging.CRITICAL)
def gen(rng, depth):
    if depth==0 or rng.random()<0.3: return ("v", rng.randint(1,4))
    return (rng.choice("+-*/"), gen(rng, depth-1), gen(rng, depth-1))
PREC={"+":1,"-":1,"*":2,"/":2}
def show(e, parent=None, right=False):
    if e[0]=="v": return f"#{e[1]}"
    s = f"{show(e[1], e[0], False)} {e[0]} {show(e[2], e[0], True)}"
    if parent and (PREC[e[0]]<PREC[parent] or (PREC[e[0]]==PREC[parent] and right)): s=f"({s})"
    return s
def ev(e, vals):
    if e[0]=="v": return Fraction(vals[e[1]])
    a,b=ev(e[1],vals),ev(e[2],vals)
    return a+b if e[0]=="+" else a-b if e[0]=="-" else a*b if e[0]=="*" else a/b
async def run(expr, rows):
    reg = ChannelRegistry(name="r"); sub = Broadcast[ComponentMetricRequest](name="s")
    b = ResampledFormulaBuilder("ns", "f", reg, sub.new_sender(), ComponentMetricId.ACTIVE_POWER, Quantity)
    e = b.from_string(show(expr), nones_are_zeros=False); rx = e.new_receiver(); await world.settle()
    snd = {i: reg.get_or_create(Sample[Quantity], ComponentMetricRequest("ns", i, ComponentMetricId.ACTIVE_POWER, None).get_channel_name()).new_sender() for i in range(1,5)}
    out=[]
    for k,row in enumerate(rows):
        for i,v in row.items(): await snd[i].send(Sample(world.T0+timedelta(seconds=k), Quantity(float(v))))
        await world.settle()
        try: out.append((await asyncio.wait_for(rx.receive(), 0.1)).value)
        except asyncio.TimeoutError: out.append("MISSING")
    await e._stop()
    return out
rng = random.Random(int(sys.argv[1])); bad=0; n=0
for it in range(int(sys.argv[2])):
    expr = gen(rng, 4); rows=[{i: rng.choice([-7,-3,-1,1,2,3,5,11]) for i in range(1,5)} for _ in range(3)]
    try: exp=[ev(expr,r) for r in rows]
    except ZeroDivisionError: continue
    n+=1
    out = world.run(lambda: run(expr, rows))
    for o,x in zip(out,exp):
        if o is None or o=="MISSING" or abs(o.base_value-float(x))>1e-9*max(1,abs(float(x))):
            bad+=1; print("BAD", show(expr), rows, o, float(x)); break
print("n",n,"bad",bad)
