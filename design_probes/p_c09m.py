import random, sys, math
import numpy as np
from datetime import datetime, timezone, timedelta
from frequenz.quantities import Quantity
from frequenz.sdk.timeseries import Sample
from frequenz.sdk.timeseries._ringbuffer import OrderedRingBuffer
E = datetime(1970,1,1,tzinfo=timezone.utc)
P = timedelta(seconds=1)
def ts(k, frac=0.0): return E + timedelta(seconds=k+frac)
def rhe(x):  # round half even
    return round(x)
FR = [0.0, 0.0, 0.2, -0.2, 0.5, -0.5, 0.49, -0.49]
def run(seed, unaligned_q):
    rng = random.Random(seed); cap = rng.randint(1,6)
    buf = OrderedRingBuffer([float('nan')]*cap if rng.random()<0.5 else np.empty(cap), P)
    newest=None; model={}; ctr=0; errs=[]; hist=[]
    for step in range(rng.randint(1,25)):
        off = rng.randint(-cap-2, 2*cap+2) if newest is not None else 0
        base = (newest if newest is not None else rng.randint(0,50)) + off
        fr = rng.choice(FR); slot = rhe(base+fr)
        kind = rng.choice(["v","v","v","none","nan"]); ctr+=1
        val = Quantity(1000.0+ctr) if kind=="v" else (None if kind=="none" else Quantity(float('nan')))
        hist.append((base,fr,kind))
        too_old = newest is not None and slot < newest-cap+1
        try:
            buf.update(Sample(ts(base,fr), val)); raised=False
        except IndexError: raised=True
        if raised != too_old: errs.append(f"step{step} too-old mismatch raised={raised} expected={too_old}"); break
        if not too_old:
            newest = slot if newest is None else max(newest, slot)
            for k in list(model):
                if k < newest-cap+1: del model[k]
            if kind=="v": model[slot]=1000.0+ctr
            else: model.pop(slot,None)
        # checks
        lo = newest-cap+1
        valid = sorted(k for k in model)
        if buf.count_valid()!=len(valid): errs.append(f"step{step} count_valid {buf.count_valid()} != {len(valid)}"); break
        gapslots=set()
        for g in buf.gaps:
            a=(g.start-E)/P; b=(g.end-E)/P
            gapslots |= set(range(int(a),int(b)))
        exp_gap = {k for k in range(lo,newest+1) if k not in model}
        if gapslots & set(range(lo,newest+1)) != exp_gap or (gapslots - set(range(lo,newest+1))): errs.append(f"step{step} gaps {sorted(gapslots)} != {sorted(exp_gap)}"); break
        ot = buf.oldest_timestamp; nt = buf.newest_timestamp
        if (ot is None) != (not valid) or (nt is None)!=(not valid): errs.append(f"step{step} None-ness"); break
        if valid:
            if ot != ts(valid[0]): errs.append(f"step{step} oldest {ot} != {ts(valid[0])}"); break
            if nt not in (ts(newest), ts(valid[-1])): errs.append(f"step{step} newest {nt}"); break
            o=int((ot-E)/P); n=int((nt-E)/P)
            cov=list(range(o,n+1))
            # index query
            i=rng.choice([None]+list(range(-cap-2,cap+3))); j=rng.choice([None]+list(range(-cap-2,cap+3)))
            w=list(buf.window(i,j,fill_value=-1.0))
            exp=[model.get(k,-1.0) for k in cov[slice(i,j)]]
            if w!=exp: errs.append(f"step{step} window({i},{j}) {w} != {exp} cov={cov}"); break
            # datetime query
            a=rng.randint(lo-2,newest+3); b=rng.randint(lo-2,newest+3)
            fa=rng.choice(FR) if unaligned_q else 0.0; fb=rng.choice(FR) if unaligned_q else 0.0
            w=list(buf.window(ts(a,fa),ts(b,fb),fill_value=-1.0))
            s0=max(a+fa,o); e0=min(b+fb,n+1)
            ok=False
            if s0>=e0: ok = (w==[])
            else:
                for A in {math.floor(s0),math.ceil(s0)}:
                    for B in {math.floor(e0),math.ceil(e0)}:
                        if B<A: continue
                        if w==[model.get(k,-1.0) for k in range(A,B)] and len(w)<=math.ceil(e0-s0) : ok=True
            if not ok: errs.append(f"step{step} window(dt {a+fa},{b+fb}) -> {w}; cov={cov} model={model}"); break
    return errs, hist, cap
for mode in (False, True):
    bad=0; first=None
    for seed in range(int(sys.argv[1])):
        errs,hist,cap = run(seed, mode)
        if errs:
            bad+=1
            if first is None or len(hist)<len(first[1]): first=(errs,hist,cap)
    print("unaligned queries" if mode else "aligned queries", "bad", bad, "of", sys.argv[1])
    if first: print("  ", first[0], "cap", first[2], "hist", first[1])
