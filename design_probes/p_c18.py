import random, sys
from fractions import Fraction as Fr
from datetime import datetime, timezone
from frequenz.client.microgrid import ComponentMetricId as M
from frequenz.sdk.timeseries.battery_pool._metric_calculator import SoCCalculator, CapacityCalculator
from frequenz.sdk.timeseries.battery_pool._component_metrics import ComponentMetricsData
NOW=datetime(2024,1,1,tzinfo=timezone.utc)
def mk(bats):
    return {b: ComponentMetricsData(b, NOW, {k:v for k,v in d.items() if v is not None}) for b,d in bats.items()}
def ref(bats, working):
    used=Fr(0); tot=Fr(0); cap=Fr(0); n=0
    for b in working:
        d=bats.get(b)
        if d is None: continue
        c,lo,hi,soc=d[M.CAPACITY],d[M.SOC_LOWER_BOUND],d[M.SOC_UPPER_BOUND],d[M.SOC]
        if None in (c,lo,hi): continue
        cap+=Fr(c)*(Fr(hi)-Fr(lo))/100
        if soc is None: continue
        n+=1
        w=Fr(c)*(Fr(hi)-Fr(lo))
        if hi==lo: s=Fr(0) if soc<lo else Fr(100)
        else: s=min(max((Fr(soc)-Fr(lo))/(Fr(hi)-Fr(lo))*100,Fr(0)),Fr(100))
        used+=w*s; tot+=w
    return (None if n==0 else (float(used/tot) if tot!=0 else 0.0)), cap
rng=random.Random(int(sys.argv[1])); bad=0
for it in range(int(sys.argv[2])):
    nb=rng.randint(1,5); bats={}
    for b in range(nb):
        lo=rng.choice([0,10,20,50]); hi=rng.choice([lo, lo+rng.choice([1,30,50])])
        bats[b]={M.CAPACITY: rng.choice([None,0,1,1000,rng.randint(1,100000)]), M.SOC_LOWER_BOUND: rng.choice([None,lo,lo,lo]), M.SOC_UPPER_BOUND: rng.choice([None,hi,hi,hi]), M.SOC: rng.choice([None,lo,hi,rng.uniform(lo,hi) if hi>lo else lo,rng.uniform(0,100)])}
    working={b for b in range(nb) if rng.random()<0.8}
    data=mk(bats)
    soc=SoCCalculator(set(range(nb))).calculate(data,set(working)).value
    cap=CapacityCalculator(set(range(nb))).calculate(data,set(working)).value
    rs,rc=ref(bats,working)
    got=None if soc is None else soc.as_percent()
    if (got is None)!=(rs is None) or (got is not None and (abs(got-rs)>1e-9 or not 0<=got<=100)): bad+=1; print("SOC",got,rs,bats,working)
    anycap = any(bats[b][M.CAPACITY] is not None and bats[b][M.SOC_LOWER_BOUND] is not None and bats[b][M.SOC_UPPER_BOUND] is not None for b in working)
    if (cap is None)!=(not anycap) or (cap is not None and abs(cap.as_watt_hours()-float(rc))>1e-6*max(1,float(rc))): bad+=1; print("CAP",cap,rc)
    if bad>3: break
print("bad",bad)
