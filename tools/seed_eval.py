#!/usr/bin/env python3
"""Confirm a seeded change written by a sub-agent and run the checks against it.

usage: tools/seed_eval.py C09 [--name NAME] [--checks C09,C06] [--budget N] [--apply-to-repo]

Steps (everything in the agent's scratch worktree /tmp/seed_<ID>, never in /repo unless
--apply-to-repo is given, in which case the patch is applied with `git -C /repo apply`,
the checks are run against /repo and the patch is reverted with `git -C /repo checkout -- .`):
  1. the patch only touches src/ and applies cleanly to /repo's HEAD;
  2. demo.py exits 1 with the change and 0 without it;
  3. the repository's test suite still has its 332 passes with the change;
  4. the listed checks (default: the property's own) are run against the changed tree;
  5. patch.diff, demo.py, NOTES.md and meta.json are stored under /verif/seeded/<name>/.
"""

from __future__ import annotations

import argparse
import json
import os
import re
import shutil
import subprocess
import sys
from pathlib import Path

ROOT = Path(__file__).resolve().parent.parent


def sh(cmd: str, cwd: str | None = None, env: dict | None = None, timeout: int = 3000) -> tuple[int, str]:
    p = subprocess.run(cmd, shell=True, cwd=cwd, env=env, capture_output=True, text=True, timeout=timeout)
    return p.returncode, (p.stdout + p.stderr)


def main() -> int:
    ap = argparse.ArgumentParser()
    ap.add_argument("pid")
    ap.add_argument("--name", default=None)
    ap.add_argument("--checks", default=None)
    ap.add_argument("--budget", type=int, default=None)
    ap.add_argument("--apply-to-repo", action="store_true")
    ap.add_argument("--worktree", default=None)
    args = ap.parse_args()
    pid = args.pid
    wt = args.worktree or f"/tmp/seed_{pid}"
    name = args.name or pid
    env = dict(os.environ, PYTHONPATH=f"{wt}/src", PYTHONDONTWRITEBYTECODE="1")
    report: dict = {"property": pid, "worktree": wt}

    patch = Path(wt) / "seed" / "patch.diff"
    rc, out = sh(f"git -C {wt} diff -- src > {patch}.fresh; git -C {wt} diff --stat -- . ':!seed' ':!PROPERTY.json'")
    report["diffstat"] = out.strip().splitlines()[-1:] if out.strip() else []
    fresh = Path(f"{patch}.fresh").read_text()
    if fresh.strip():
        patch.write_text(fresh)
    os.remove(f"{patch}.fresh")
    touched = re.findall(r"^diff --git a/(\S+)", patch.read_text(), flags=re.M)
    report["files"] = touched
    if not touched or any(not t.startswith("src/") for t in touched):
        print("REJECT: patch touches files outside src/ or is empty:", touched)
        return 1
    rc, out = sh(f"git -C /repo apply --check {patch}")
    report["applies_to_repo_head"] = rc == 0
    if rc != 0:
        print("REJECT: patch does not apply to /repo HEAD:", out[-300:])
        return 1

    # demo with / without the change
    rc_with, out_with = sh(f"/venv/bin/python seed/demo.py", cwd=wt, env=env, timeout=600)
    sh(f"git -C {wt} apply -R {patch}")
    try:
        rc_without, out_without = sh(f"/venv/bin/python seed/demo.py", cwd=wt, env=env, timeout=600)
    finally:
        sh(f"git -C {wt} apply {patch}")
    report["demo_with_change"] = {"exit": rc_with, "tail": out_with.strip().splitlines()[-3:]}
    report["demo_without_change"] = {"exit": rc_without, "tail": out_without.strip().splitlines()[-2:]}
    if rc_with != 1 or rc_without != 0:
        print(f"REJECT: demo exits {rc_with} with the change and {rc_without} without it")
        print(out_with[-500:])
        return 1

    # test suite with the change
    rc, out = sh("/venv/bin/python -m pytest -q -p no:cacheprovider --timeout=900 2>&1 | tail -40", cwd=wt, env=env)
    m = re.search(r"(?:(\d+) failed, )?(\d+) passed", out)
    report["suite_with_change"] = m.group(0) if m else out.strip()[-200:]
    if not m or int(m.group(2)) != 332 or int(m.group(1) or 0) != 18:
        print("REJECT: test suite does not keep its 332 passes / 18 baseline doc failures:", out[-300:])
        return 1

    # run the checks
    checks = (args.checks or pid).split(",")
    results = {}
    if args.apply_to_repo:
        rc, out = sh(f"git -C /repo apply {patch}")
        assert rc == 0, out
    try:
        for c in checks:
            cenv = dict(os.environ, VERIF_NO_EVIDENCE="1", VERIF_REPLAY_DIR=f"/tmp/seed_replays_{name}")
            if not args.apply_to_repo:
                cenv["VERIF_REPO_SRC"] = f"{wt}/src"
            cmd = f"{ROOT}/check {c} --tier quick" + (f" --budget {args.budget}" if args.budget else "")
            rc, out = sh(cmd, env=cenv)
            lines = [ln for ln in out.splitlines() if "WARNING conda" not in ln]
            results[c] = {"exit": rc, "tail": lines[-4:]}
            print(f"check {c}: exit {rc}")
            for ln in lines[-4:]:
                print("   ", ln[:300])
    finally:
        if args.apply_to_repo:
            sh("git -C /repo checkout -- .")
    report["checks"] = results
    report["ran_against"] = "/repo with the patch applied (git apply; reverted with git checkout -- .)" if args.apply_to_repo \
        else f"{wt}/src (the scratch worktree with the patch applied, via VERIF_REPO_SRC)"
    report["caught_by"] = [c for c, r in results.items() if r["exit"] == 1]

    dest = ROOT / "seeded" / name
    dest.mkdir(parents=True, exist_ok=True)
    shutil.copy(patch, dest / "patch.diff")
    shutil.copy(Path(wt) / "seed" / "demo.py", dest / "demo.py")
    notes = Path(wt) / "seed" / "NOTES.md"
    if notes.exists():
        shutil.copy(notes, dest / "NOTES.md")
    meta_path = dest / "meta.json"
    meta = json.loads(meta_path.read_text()) if meta_path.exists() else {}
    meta.update({
        "breaks_property": pid,
        "needs_to_manifest": meta.get("needs_to_manifest", "see NOTES.md"),
        "confirmation": report,
    })
    meta_path.write_text(json.dumps(meta, indent=1) + "\n")
    print("stored in", dest, "caught by", report["caught_by"])
    return 0


if __name__ == "__main__":
    sys.exit(main())
