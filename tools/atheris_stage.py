#!/usr/bin/env python3
"""Coverage-guided stage: atheris (libFuzzer) drives the Hypothesis strategy of a property module
through `fuzz_one_input`, with the code under test instrumented, so generator, oracle and replay
format are shared with the Hypothesis run.

usage (inside ./check's environment):  tools/atheris_stage.py <ID> [-runs=N] [-seed=N] [corpus_dir]

Only the part of a property's domain that runs without the virtual-time loop is fuzzed here
(libFuzzer owns SIGALRM for its own time-out; `world.run` uses it for the livelock watchdog).

Exit 0 if no violation was found, 1 + "VIOLATION property=<ID> replay=<path>" otherwise.  Counters are
flushed to $VERIF_ATHERIS_STATS (JSON) every 200 cases because libFuzzer leaves through exit() without
running Python's atexit handlers.
"""
import json
import logging
import os
import sys
from pathlib import Path

ROOT = Path(__file__).resolve().parent.parent
sys.path[:0] = [os.environ.get("VERIF_REPO_SRC", "/repo/src"), str(ROOT), str(ROOT / ".deps")]
logging.disable(logging.CRITICAL)

# id -> (property module, packages to instrument, predicate selecting the cases that need no event loop)
STAGES = {
    "C09": ("c09_ringbuffer", ["frequenz.sdk.timeseries._ringbuffer"], lambda c: c["container"] != "mw"),
    "C03": ("c03_c04_matryoshka", ["frequenz.sdk.microgrid._power_managing"], None),
    "C04": ("c03_c04_matryoshka", ["frequenz.sdk.microgrid._power_managing"], None),
    "C01": ("c01_c02_distribution", ["frequenz.sdk.microgrid._power_distributing._distribution_algorithm"],
            lambda c: c["mode"] == "direct"),
    "C02": ("c01_c02_distribution", ["frequenz.sdk.microgrid._power_distributing._distribution_algorithm"],
            lambda c: c["mode"] == "direct"),
}


def main() -> None:
    if len(sys.argv) < 2 or sys.argv[1] not in STAGES:
        print(f"usage: atheris_stage.py {{{'|'.join(STAGES)}}} [-runs=N] [-seed=N]", file=sys.stderr)
        sys.exit(2)
    pid = sys.argv[1]
    argv = [sys.argv[0]] + sys.argv[2:]
    modname, include, keep = STAGES[pid]

    import atheris  # pylint: disable=import-outside-toplevel

    import importlib  # pylint: disable=import-outside-toplevel

    # first import of the SDK happens inside the instrumenting context (include= limits what is instrumented);
    # frequenz.sdk.microgrid goes first because of an import cycle in the formula generators
    with atheris.instrument_imports(include=include):
        importlib.import_module("frequenz.sdk.microgrid")
        for name in include:
            importlib.import_module(name)

    from hypothesis import HealthCheck, given, settings  # pylint: disable=import-outside-toplevel

    mod = importlib.import_module(f"vf.props.{modname}")
    stats_path = os.environ.get("VERIF_ATHERIS_STATS")
    replay_dir = Path(os.environ.get("VERIF_REPLAY_DIR", str(ROOT / "replays"))) / pid
    tag = next((a.split("=", 1)[1] for a in argv if a.startswith("-seed=")), "0")
    stats = {"cases": 0, "labels": {}, "nontrivial": 0, "instrumented": include}

    def flush() -> None:
        if stats_path:
            Path(stats_path).write_text(json.dumps(stats))

    strat = mod.strategy("quick", pid)
    if keep is not None:
        strat = strat.filter(keep)

    @settings(database=None, deadline=None, suppress_health_check=list(HealthCheck))
    @given(strat)
    def fuzz_target(case):  # type: ignore[no-untyped-def]
        verdict = mod.run_case(case, pid)
        stats["cases"] += 1
        stats["nontrivial"] += bool(verdict.nontrivial)
        for lab in verdict.labels:
            stats["labels"][lab] = stats["labels"].get(lab, 0) + 1
        if verdict.violations:
            replay_dir.mkdir(parents=True, exist_ok=True)
            path = replay_dir / f"atheris-seed{tag}.json"
            path.write_text(json.dumps({"property": pid, "case": case, "violations": verdict.violations}, indent=1))
            stats["violation"] = {"replay": str(path), "violations": verdict.violations[:5]}
            flush()
            for msg in verdict.violations[:5]:
                print("  violated:", msg, flush=True)
            print(f"VIOLATION property={pid} replay={path}", flush=True)
            os._exit(1)
        if stats["cases"] % 200 == 0:
            flush()

    flush()
    atheris.Setup(argv, fuzz_target.hypothesis.fuzz_one_input)
    atheris.Fuzz()


if __name__ == "__main__":
    main()
