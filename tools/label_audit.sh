#!/bin/bash
# Run every claimed check with seeds 1..3 and print, per property, the smallest measured
# label fraction next to the required minimum (generator health margins).
cd "$(dirname "$0")/.." || exit 2
audit() {
  pid=$1
  for s in 1 2 3; do
    VERIF_SEED=$s ./check "$pid" --tier quick > "/tmp/audit_${pid}_${s}.out" 2>&1
    echo "$pid seed=$s exit=$? $(grep -v WARNING "/tmp/audit_${pid}_${s}.out" | tail -1)"
    cp "evidence/$pid.json" "/tmp/audit_${pid}_${s}.json" 2>/dev/null
  done
}
export -f audit
printf "%s\n" "$@" | xargs -P 10 -I{} bash -c 'audit {}'
