#!/usr/bin/env python3
"""Regenerate /verif/MANIFEST.json from the table below (kept valid at all times).

A property is claimed as soon as its module exists under vf/props and it is listed in
CLAIMED; everything else is listed under not_applicable with the reason given here.
"""

import json
import sys
from pathlib import Path

ROOT = Path(__file__).resolve().parent.parent

BASELINE = "cd /repo && /venv/bin/python -m pytest -ra -q -p no:cacheprovider --timeout=900 --continue-on-collection-errors"

# id -> (technique, level text, level note, design ref)
CHECKS = {
    "C01": (
        "Hypothesis PBT: conservation identity + sign/remainder invariants over generated battery/inverter data, direct and through a real BatteryManager on a fake API + coverage-guided stage in the thorough tier (atheris/libFuzzer driving the same strategy and oracle through fuzz_one_input)",
        "Generated consistent battery/inverter data sets (1-6 groups, multi-battery/multi-inverter, boundary requests) are "
        "pushed through distribute_power and through BatteryManager; the oracle is the sum identity and sign rules, not a "
        "copy of the algorithm. Exploration level: thousands (quick) to ~3*10^5 (thorough) cases, no absence claim.",
        "Tolerance 1e-6 relative; admitted requests chosen with the documented advertised-bounds aggregation recomputed by "
        "the harness; status tracker stubbed to 'all working' in manager mode.",
        "DESIGN.md section 3 C01/C02",
    ),
    "C02": (
        "Hypothesis PBT: per-inverter and per-group bound predicates + zero-headroom rule over the C01 domain + coverage-guided stage in the thorough tier (atheris/libFuzzer driving the same strategy and oracle through fuzz_one_input)",
        "Same generated domain as C01; oracle = bound predicates recomputed from the input data; repeated and different "
        "requests on one long-lived algorithm / manager instance. Exploration level.",
        "Tolerance 1e-6 on the permissive side only.",
        "DESIGN.md section 3 C01/C02",
    ),
    "C03": (
        "Hypothesis PBT over proposal histories: envelope invariant after every operation + metamorphic history-freedom (fresh instance, all arrival orders) + coverage-guided stage in the thorough tier (atheris/libFuzzer driving the same strategy and oracle through fuzz_one_input)",
        "Histories of propose/replace/expire/bounds-change operations on a real Matryoshka; after every step the target is "
        "checked against the usable-bounds envelope and against a fresh instance fed only the live proposals; at the end all "
        "n! arrival orders are enumerated. Exploration level.",
        "A single proposal has lower<=upper; at an age of exactly max_proposal_age both readings are accepted.",
        "DESIGN.md section 3 C03",
    ),
    "C04": (
        "Hypothesis PBT: independent exact-rational interval reference model + report/target relation + null-proposal metamorphic check + coverage-guided stage in the thorough tier (atheris/libFuzzer driving the same strategy and oracle through fuzz_one_input)",
        "Conflict-free proposal sets built constructively are compared with a closed-interval reference over Fractions; the "
        "bounds reported to each actor are checked as a relation against what the manager does with that actor's proposal. "
        "Exploration level.",
        "Distinct priorities per actor; ties between two equally near admissible values accept both; preference 0 accepts 0.",
        "DESIGN.md section 3 C04",
    ),
    "C05": (
        "Hypothesis PBT over generated programs (expression trees realised as formula strings - half of them through the engine pool after similar decoy formulas -, composition-API calls and FormulaBuilder tokens) against an exact Fraction evaluator",
        "A compiler-correctness style check: random expression trees are compiled by the real tokenizer / shunting yard / "
        "composition API, run as real engines on a virtual-time loop, and compared per timestamp with exact rational evaluation "
        "under conventional precedence and associativity. Exploration level.",
        "Lock-step delivery; tolerance 1e-9 relative to the largest intermediate magnitude; ill-conditioned denominators excluded and counted.",
        "DESIGN.md section 3 C05",
    ),
    "C13": (
        "Hypothesis PBT over the C05 programs x missing-value patterns (None/NaN/+-inf, every operand position, per-stream and global nones_are_zeros, exact zero denominators, overflow) against a three-valued reference evaluator",
        "Same program generator as C05 with missing inputs, zero denominators and overflowing products; the oracle demands exactly "
        "one output per input timestamp, None iff the three-valued reference is undefined. Exploration level.",
        "Lock-step delivery; rational cancellation through nested divisions and intermediate overflow with a representable final value are excluded and counted.",
        "DESIGN.md section 3 C13",
    ),
    "C06": (
        "Hypothesis PBT over delivery schedules owned by the harness (virtual-time loop): positional value encoding makes every output decode to the input ticks it used (deep staggered backlogs, a phase lagging beyond internal capacity, daylight-saving-zone streams, missing samples counted as zero)",
        "Per-stream start offsets, send/settle interleavings and the consumer's start point are generated values; four formula "
        "shapes (builder sum, string sum, nested composition, three-phase). Every output must equal the formula on the inputs "
        "of its own timestamp and the output timeline must be gap-free. Exploration level.",
        "Input streams individually ordered and gap-free; no receiver overflow (interpreter skips such sends).",
        "DESIGN.md section 3 C06",
    ),
    "C07": (
        "Hypothesis PBT over clock/lateness scripts on a harness-owned virtual clock: arithmetic-progression and alignment predicates on the timestamps handed to every sink",
        "Period, align_to, creation phase relative to the grid, sink latencies of several periods, a late first call and series "
        "added while running are generated values; the wall clock is slaved to the virtual loop so timer lateness is exact and "
        "reproducible. Exploration level.",
        "frequenz-channels Timer taken as given; the driver restarts resample() on exceptions like the resampling actor.",
        "DESIGN.md section 3 C07",
    ),
    "C08": (
        "Hypothesis PBT over time-ordered arrival scripts hitting both window edges, with a recording resampling function as the observation point and a recomputed relevance window as oracle (Resampler driven tick by tick, or a MovingWindow that owns its resampler; UTC or daylight-saving-zone timestamps)",
        "Arrival scripts on a quarter-period grid (bursts, silences, future-stamped samples, stamps exactly on T and on "
        "T - age*period, None/NaN) are fed on the virtual clock; what the resampler hands to the (public) resampling function is "
        "compared with the window recomputed from the script. Exploration level.",
        "Input timestamps non-decreasing; buffer capacity existentially quantified once the resampler has estimated the input period.",
        "DESIGN.md section 3 C08",
    ),
    "C09": (
        "Hypothesis model-based testing: update/query histories against a sliding dict model, invariant after every step (list, numpy and MovingWindow containers) + coverage-guided stage in the thorough tier (atheris/libFuzzer driving the same strategy and oracle through fuzz_one_input, ring-buffer package instrumented)",
        "Operation histories (in/out of order, off-grid timestamps, gaps, jumps beyond capacity, None/NaN, index and unaligned "
        "datetime queries) are applied to the real buffer and to a dict model; counts, gap slot sets, oldest/newest and every "
        "query result are compared after every step. Exploration level.",
        "Unique stored values make stale or shifted data recognisable; at exact half-slot ties at both query ends one extra "
        "slot is tolerated (documented half-to-even rounding); MovingWindow is not sent samples older than its window.",
        "DESIGN.md section 3 C09",
    ),
    "C10": (
        "Hypothesis PBT over fault placements x control schedules on a virtual clock: probe actor driven by a generated outcome script, trace judged by a reference lifecycle model and invariants; services, run() groups and a real ComponentMetricsResamplingActor with a failing source",
        "The failure is placed at every await point of a small run body (including inside the cancellation handler), restart limit "
        "and delay vary, and start/stop/cancel/wait/extra-task/advance operations land before, inside and after runs and restart "
        "delays; a lifecycle model written from the statement predicts every _run invocation time exactly (virtual time). Also "
        "plain BackgroundServices and run(*actors). Exploration level.",
        "Cases with start() during an in-progress cancellation are not judged beyond that point; bounded liveness (60 s virtual horizon).",
        "DESIGN.md section 3 C10",
    ),
    "C11": (
        "Hypothesis PBT over event histories of a real PowerManagingActor on a virtual clock: each request checked against the actor's own published reports and the latest bounds (results answering the latest or an older request; live proposals sent again at the end must not move the request)",
        "Histories of regular/operating-point proposals, bounds updates, distribution results and expiry are applied to the real "
        "actor (bounds stream injected by the harness); after every event and a quiescence barrier the requests sent are compared "
        "with the sum of the two reported targets and with the latest inclusion bounds; after a bounds update the standing "
        "request must still match. Exploration level.",
        "new_battery_pool patched inside the actor's module to obtain the bounds stream; distinct priorities over all actors.",
        "DESIGN.md section 3 C11",
    ),
    "C12": (
        "Hypothesis PBT over generated component graphs with ground-truth physics: every generated formula engine is run for real and compared with the constructed totals (staggered stream starts; a phase with one meter missing admits None or the true total only)",
        "Random valid trees (repository validation decides validity) with device powers on separate decimal scales; each of the 7 "
        "formula generators (fallback on/off) is instantiated, run as a real engine on harness-fed channels and compared with the "
        "totals known from the construction, plus the balance grid == consumer + producer + battery + EV. Exploration level.",
        "The harness plays the resampling actor (answers each ComponentMetricRequest); all streams valid and in lock-step.",
        "DESIGN.md section 3 C12",
    ),
    "C14": (
        "Hypothesis model-based testing over request/completion schedules: the harness owns every completion of a probe ComponentManager; entered-request trace vs a two-slot reference model per group",
        "Request bursts, slow and failing completions over 1-3 disjoint groups are generated; after every quiescence barrier the "
        "sequence of requests that entered distribute_power must equal the (in flight, pending) model's, no two calls of a group "
        "overlap, and after all completions are released the last request of every group has been applied (bounded liveness). "
        "Exploration level.",
        "A completion is separated from the next request by a barrier (their race has two legal outcomes); virtual-time loop.",
        "DESIGN.md section 3 C14",
    ),
    "C15": (
        "Hypothesis PBT with injected per-call API faults (5 outcomes per set_power call, all 5^n vectors for small n): accounting identities against recorded calls; reply latencies, several requests per manager, two in flight at once, and a variant with the SDK's own pool status tracker changing a component's status in mid-flight",
        "Real BatteryManager and PVManager on a fake API whose every set_power call returns, is rejected, errors, raises or "
        "hangs until the (virtual-time) timeout as the generated vector says; the Result is checked against the recorded calls. "
        "Fault-vector space is enumerated completely for n<=2 calls per case, sampled beyond. Exploration level.",
        "Component status trackers stubbed to 'all working'; virtual clock (async_solipsism); tolerance 1e-6.",
        "DESIGN.md section 3 C15",
    ),
    "C16": (
        "Hypothesis model-based testing over message/silence/result histories on a virtual clock: notification stream vs a reference status machine + a one-directional safety invariant on the raw trace",
        "Histories of healthy / singly-faulty / stale battery and inverter messages, silences around the 10 s data-age limit and "
        "command outcomes drive a real BatteryStatusTracker on the fake API; the notification sequence must equal the reference "
        "machine's, and WORKING/UNCERTAIN may never stand while a disqualifying fact holds. Exploration level.",
        "Message timestamps are fresh or older than the maximum age (no lags inside (0, max age)); timers elapse exactly (virtual time).",
        "DESIGN.md section 3 C16",
    ),
    "C17": (
        "Hypothesis PBT, differential: advertised SystemBounds (PowerBoundsCalculator) vs admission by a real BatteryManager for probes on/around every advertised bound, in five phases on one manager (initial data, late-stamped update, partially working set, bounds streamed by a send-on-update aggregator after a slow drift and after a non-working member changed)",
        "For generated topologies with shared inverters/batteries and exact (half-integer) bounds, every admitted probe power is "
        "sent to a real BatteryManager with both adjust_power settings; OutOfBounds is a violation; enforced inclusion bounds "
        "are read back from a provoked rejection and compared with the advertised ones. Exploration level.",
        "Complete data, all batteries working; a probe exactly on an advertised exclusion bound is not required to be accepted.",
        "DESIGN.md section 3 C17",
    ),
    "C18": (
        "Hypothesis PBT: exact Fraction reference model + metamorphic relations (range, monotone, scale, shift) on shared calculator instances, and a real send-on-update pipeline with working-set changes, unchanged messages and slow drift",
        "Generated battery sets (metric presence, working subsets, degenerate limits, zero capacity) are compared "
        "with an exact rational evaluation of the documented formulas and three metamorphic relations; exploration "
        "level: thousands (quick) to ~10^6 (thorough) cases per run, no absence claim.",
        "Calculators are called directly (the layer the property is anchored in); NaN is represented as 'missing' "
        "because the metric fetcher drops NaN before the calculators see it.",
        "DESIGN.md section 3 C18",
    ),
}

CHECKS["C19"] = (
    "Hypothesis PBT over fault scripts x delivery schedules for a real generated PV formula with fallback; the harness plays the resampling actor and owns validity, delivery order, fallback lag, stream closing and transient receive errors on primary and fallback",
    "Per tick every primary meter and fallback inverter is valid or missing, fallback samples arrive before/after/late, a primary "
    "stream may be closed; source-identifying values make every output attributable to primary or fallback and to a tick. The "
    "start-up delay after the first failure is checked to be bounded. A wall-clock watchdog turns an engine that spins without "
    "yielding into a reported violation. Exploration level.",
    "New subscriptions are served from the next tick (resampling-actor behaviour); primaries are delivered on time; when neither "
    "source is valid nothing is demanded.",
    "DESIGN.md section 3 C19",
)
CHECKS["C20"] = (
    "Hypothesis PBT over subscription/message interleavings for a real DataSourcingActor on a fake API: exactly-once contiguous-run predicate per subscription with barrier-derived start limits",
    "Subscriptions (new, duplicate, unknown component) are interleaved with data messages and quiescence barriers for meters, "
    "inverters, batteries and EV chargers; each message carries its own number in every metric, so loss, duplication, "
    "reordering, wrong metric and wrong timestamp are all visible per stream. Exploration level.",
    "At most 30 messages between barriers (API receiver capacity 50); a message still queued when a request is processed may go to "
    "the new subscriber.",
    "DESIGN.md section 3 C20",
)

NOT_YET = "check not built yet in this round (design in DESIGN.md section 3); not claimed until its check runs clean"


def main() -> int:
    props = [json.loads(line) for line in (ROOT / "properties.jsonl").read_text().splitlines() if line.strip()]
    checks = []
    not_applicable = []
    for p in props:
        pid = p["id"]
        if pid in CHECKS:
            tech, text, note, ref = CHECKS[pid]
            checks.append(
                {
                    "property_id": pid,
                    "quick_cmd": f"./check {pid} --tier quick",
                    "thorough_cmd": f"./check {pid} --tier thorough",
                    "evidence_file": f"evidence/{pid}.json",
                    "replay_cmd_template": f"./check {pid} --replay {{path}}",
                    "engine": "vf",
                    "level_claimed": {"category": "exploration", "text": text, "design_ref": ref},
                    "level_note": note,
                    "technique": tech,
                }
            )
        else:
            not_applicable.append({"property_id": pid, "reason": NOT_YET})
    manifest = {
        "version": 1,
        "setup_cmd": "./setup.sh",
        "hooks": {
            "guard": "FREQUENZ_SDK_VERIF",
            "enable": "no source hooks are needed: every observation point is reachable through public "
            "objects, in-process channels and unittest.mock substitutions made by the harness; the guard "
            "variable is exported by ./check but nothing in /repo reads it",
            "baseline_off_cmd": BASELINE,
            "source_commits": [],
            "add_only": True,
        },
        "engines": [
            {
                "name": "vf",
                "path": "vf/",
                "serves_properties": [c["property_id"] for c in checks],
                "kind_free_text": "Hypothesis property-based testing (generated cases -> run_case -> oracle), "
                "operation-sequence/model-based histories, virtual-time asyncio world owned by the harness",
            }
        ],
        "checks": checks,
        "notes": "All checks: ./check <ID> [--tier quick|thorough] [--replay FILE]; exit 0 held, 1 VIOLATION, "
        "2 harness error. Known findings: known_findings.json. Design: DESIGN.md.",
        "not_applicable": not_applicable,
    }
    (ROOT / "MANIFEST.json").write_text(json.dumps(manifest, indent=1) + "\n")
    try:
        import jsonschema  # type: ignore

        schema = json.loads(Path("/root/.vp/MANIFEST.schema.json").read_text())
        jsonschema.validate(manifest, schema)
        print("MANIFEST.json valid;", len(checks), "claimed,", len(not_applicable), "not claimed")
    except ImportError:
        print("MANIFEST.json written (jsonschema not available for validation)")
    return 0


if __name__ == "__main__":
    sys.exit(main())
