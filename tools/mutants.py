#!/usr/bin/env python3
"""Sensitivity: run quick checks against small semantic mutants of /repo/src.

mutants/mutants.json: list of {"name", "props": [ids], "file": path under src/,
"old": exact text (must occur exactly once), "new": replacement, "note"}.
Each mutant is applied to a scratch copy of /repo/src under /tmp (never to /repo),
the listed checks are run with VERIF_REPO_SRC pointing at the copy and are expected to
exit 1; the copy is removed afterwards.  Evidence files are not touched (VERIF_NO_EVIDENCE).

usage: tools/mutants.py [--only NAME_SUBSTR] [--prop ID] [--jobs N] [--budget N]
"""

from __future__ import annotations

import argparse
import json
import os
import shutil
import subprocess
import sys
import tempfile
from concurrent.futures import ThreadPoolExecutor
from pathlib import Path

ROOT = Path(__file__).resolve().parent.parent


def run_one(mut: dict, pid: str, budget: int | None) -> tuple[str, str, int, str]:
    tmp = Path(tempfile.mkdtemp(prefix="vf_mut_"))
    try:
        shutil.copytree("/repo/src", tmp / "src", ignore=shutil.ignore_patterns("__pycache__"))
        path = tmp / "src" / mut["file"]
        text = path.read_text()
        if text.count(mut["old"]) != 1:
            return mut["name"], pid, -1, f"'old' occurs {text.count(mut['old'])} times"
        path.write_text(text.replace(mut["old"], mut["new"]))
        env = dict(os.environ, VERIF_REPO_SRC=str(tmp / "src"), VERIF_NO_EVIDENCE="1",
                   VERIF_REPLAY_DIR=str(tmp / "replays"))
        cmd = [str(ROOT / "check"), pid, "--tier", "quick"]
        if budget:
            cmd += ["--budget", str(budget)]
        proc = subprocess.run(cmd, env=env, capture_output=True, text=True, timeout=3000)
        tail = "\n".join((proc.stdout + proc.stderr).strip().splitlines()[-4:])
        return mut["name"], pid, proc.returncode, tail
    finally:
        shutil.rmtree(tmp, ignore_errors=True)


def main() -> int:
    ap = argparse.ArgumentParser()
    ap.add_argument("--only", default=None)
    ap.add_argument("--prop", default=None)
    ap.add_argument("--jobs", type=int, default=8)
    ap.add_argument("--budget", type=int, default=None)
    ap.add_argument("-v", action="store_true")
    args = ap.parse_args()
    muts = json.loads((ROOT / "mutants" / "mutants.json").read_text())
    jobs = []
    for m in muts:
        if args.only and args.only not in m["name"]:
            continue
        for pid in m["props"]:
            if args.prop and pid != args.prop:
                continue
            jobs.append((m, pid))
    missed = 0
    with ThreadPoolExecutor(args.jobs) as ex:
        for name, pid, rc, tail in ex.map(lambda j: run_one(j[0], j[1], args.budget), jobs):
            status = {1: "CAUGHT", 0: "MISSED", 2: "HARNESS-ERROR", -1: "BAD-MUTANT"}.get(rc, f"rc={rc}")
            print(f"{status:14s} {pid} {name}")
            if rc != 1:
                missed += 1
            if args.v or rc != 1:
                print("    " + tail.replace("\n", "\n    "))
    print(f"{len(jobs) - missed}/{len(jobs)} caught")
    return 0 if missed == 0 else 1


if __name__ == "__main__":
    sys.exit(main())
