#!/usr/bin/env python3
"""Coverage-guided stage for C09 (ring buffer): atheris drives the Hypothesis strategy of the C09 module
through `fuzz_one_input`, so generator, oracle and replay format are shared with the Hypothesis run.

usage (via ./check's environment):  tools/atheris_c09.py [-runs=N] [-seed=N] [corpus_dir]
Exit 0 if no violation was found in the run, 1 + VIOLATION line otherwise.
"""
import json
import logging
import os
import sys
from pathlib import Path

ROOT = Path(__file__).resolve().parent.parent
sys.path[:0] = [os.environ.get("VERIF_REPO_SRC", "/repo/src"), str(ROOT), str(ROOT / ".deps")]
logging.disable(logging.CRITICAL)

import atheris  # noqa: E402

with atheris.instrument_imports(include=["frequenz.sdk.timeseries._ringbuffer"]):
    import frequenz.sdk.timeseries._ringbuffer.buffer  # noqa: E402,F401

from hypothesis import HealthCheck, given, settings  # noqa: E402

from vf.props import c09_ringbuffer as mod  # noqa: E402

STATS = {"cases": 0, "labels": {}, "nontrivial": 0}


class Violation(Exception):
    pass


@settings(database=None, deadline=None, suppress_health_check=list(HealthCheck))
@given(mod.strategy("quick", "C09").filter(lambda c: c["container"] != "mw"))
def fuzz_target(case):
    verdict = mod.run_case(case, "C09")
    STATS["cases"] += 1
    STATS["nontrivial"] += bool(verdict.nontrivial)
    for lab in verdict.labels:
        STATS["labels"][lab] = STATS["labels"].get(lab, 0) + 1
    if verdict.violations:
        out = ROOT / "replays" / "C09"
        out.mkdir(parents=True, exist_ok=True)
        path = out / "atheris.json"
        path.write_text(json.dumps({"property": "C09", "case": case, "violations": verdict.violations}, indent=1))
        print(f"VIOLATION property=C09 replay={path}", flush=True)
        print("  violated:", verdict.violations[0], flush=True)
        print("ATHERIS-STATS", json.dumps(STATS), flush=True)
        os._exit(1)


def main():
    atheris.Setup(sys.argv, fuzz_target.hypothesis.fuzz_one_input)
    import atexit

    atheris.Fuzz()


if __name__ == "__main__":
    try:
        main()
    finally:
        print("ATHERIS-STATS", json.dumps(STATS), flush=True)
