#!/bin/bash
# Apply every stored seeded change to /repo itself, run the property's quick check, revert.
# usage: tools/seed_confirm.sh [ID ...]   (default: all under seeded/)
cd "$(dirname "$0")/.." || exit 2
ids=("$@"); [ ${#ids[@]} -eq 0 ] && ids=($(ls seeded))
git -C /repo diff --quiet || { echo "/repo has uncommitted changes"; exit 2; }
for id in "${ids[@]}"; do
  p="seeded/$id/patch.diff"
  # the check to run: the broken property's own, unless meta.json names another one that catches the change (confirm_with)
  pid=$(python3 -c "import json;m=json.load(open('seeded/$id/meta.json'));print(m.get('confirm_with', m['breaks_property']))")
  if ! git -C /repo apply --check "$PWD/$p" 2>/dev/null; then
    (cd /repo && patch -s -p1 --no-backup-if-mismatch --fuzz=3 < "/verif/$p") || { echo "$id: patch does not apply"; git -C /repo checkout -- .; continue; }
    git -C /repo diff -- src > "$p"; git -C /repo checkout -- .
    echo "$id: patch refreshed against current HEAD"
  fi
  git -C /repo apply "$PWD/$p" || { echo "$id: apply failed"; continue; }
  out=$(VERIF_NO_EVIDENCE=1 VERIF_REPLAY_DIR=/tmp/seed_confirm_replays ./check "$pid" --tier quick 2>&1 | grep -v "WARNING conda")
  rc=$?
  rc=$(echo "$out" | grep -q "^VIOLATION property=$pid" && echo 1 || echo 0)
  git -C /repo checkout -- .
  echo "$id ($pid): $( [ "$rc" = 1 ] && echo CAUGHT || echo MISSED ) :: $(echo "$out" | grep "violated:" | head -1 | cut -c1-200)"
  python3 - "$id" "$rc" "$(echo "$out" | grep 'violated:' | head -2)" <<'PY'
import json,sys
p=f"/verif/seeded/{sys.argv[1]}/meta.json"; m=json.load(open(p))
m["confirmed_against_repo"]={"how":"git -C /repo apply seeded/<id>/patch.diff; ./check <property> --tier quick; git -C /repo checkout -- .",
  "caught": sys.argv[2]=="1", "first_violations": sys.argv[3].splitlines()}
json.dump(m,open(p,"w"),indent=1)
PY
done
rm -rf /tmp/seed_confirm_replays
