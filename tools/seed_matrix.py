#!/usr/bin/env python3
"""How robustly does each quick check catch the stored seeded changes?  (robustness across VERIF_SEED)

usage: tools/seed_matrix.py [--seeds 2,3,4] [--jobs 8] [--only SUBSTR]

For every seeded/<name>/patch.diff a scratch copy of /repo's committed src tree is made under /tmp,
the patch is applied there (never in /repo), the property's quick check is run against the copy
(VERIF_REPO_SRC) for each seed, and the copy is removed.  Prints one line per (change, seed) with the
number of evaluations the check needed, and writes seeded/MATRIX.json.
"""

from __future__ import annotations

import argparse
import json
import os
import re
import shutil
import subprocess
import sys
import tempfile
from concurrent.futures import ThreadPoolExecutor
from pathlib import Path

ROOT = Path(__file__).resolve().parent.parent


def run_one(name: str, seeds: list[int]) -> dict:
    meta = json.loads((ROOT / "seeded" / name / "meta.json").read_text())
    pid = meta["breaks_property"]
    tmp = tempfile.mkdtemp(prefix=f"sm_{name}_")
    out: dict = {"name": name, "property": pid, "runs": {}}
    try:
        subprocess.run(f"git -C /repo archive HEAD src | tar -x -C {tmp}", shell=True, check=True)
        p = subprocess.run(f"patch -s -p1 --no-backup-if-mismatch --fuzz=3 < {ROOT}/seeded/{name}/patch.diff", shell=True, cwd=tmp,
                           capture_output=True, text=True)
        if p.returncode != 0:
            out["error"] = "patch does not apply: " + (p.stdout + p.stderr)[-200:]
            return out
        for seed in seeds:
            env = dict(os.environ, VERIF_REPO_SRC=f"{tmp}/src", VERIF_NO_EVIDENCE="1", VERIF_REPLAY_DIR=f"{tmp}/replays",
                       VERIF_SEED=str(seed))
            proc = subprocess.run([str(ROOT / "check"), pid, "--tier", "quick"], env=env, capture_output=True, text=True, timeout=3000)
            text = proc.stdout + proc.stderr
            m = re.search(r"evaluations=(\d+)", text)
            out["runs"][str(seed)] = {"exit": proc.returncode, "evaluations": int(m.group(1)) if m else None}
    finally:
        shutil.rmtree(tmp, ignore_errors=True)
    return out


def main() -> int:
    ap = argparse.ArgumentParser()
    ap.add_argument("--seeds", default="2,3,4")
    ap.add_argument("--jobs", type=int, default=8)
    ap.add_argument("--only", default=None)
    args = ap.parse_args()
    seeds = [int(s) for s in args.seeds.split(",")]
    names = sorted(d.name for d in (ROOT / "seeded").iterdir() if (d / "patch.diff").exists())
    if args.only:
        names = [n for n in names if args.only in n]
    results = []
    with ThreadPoolExecutor(args.jobs) as ex:
        for res in ex.map(lambda n: run_one(n, seeds), names):
            results.append(res)
            if "error" in res:
                print(f"{res['name']:6s} ERROR {res['error']}", flush=True)
                continue
            cells = " ".join(
                f"seed{s}:{'caught' if r['exit'] == 1 else 'MISSED' if r['exit'] == 0 else 'exit' + str(r['exit'])}@{r['evaluations']}"
                for s, r in res["runs"].items())
            print(f"{res['name']:6s} {res['property']} {cells}", flush=True)
    path = ROOT / "seeded" / "MATRIX.json"
    old = json.loads(path.read_text()) if path.exists() else {}
    for res in results:
        old[res["name"]] = res
    path.write_text(json.dumps(old, indent=1, sort_keys=True) + "\n")
    missed = sum(1 for res in results for r in res.get("runs", {}).values() if r["exit"] != 1)
    print(f"{missed} (change, seed) pairs not caught")
    return 0


if __name__ == "__main__":
    sys.exit(main())
